#!/bin/sh
# usage: mdev.sh <seed-dir-name> <harness-regex> [dev.py flags]
id=$1; rx=$2; shift 2
r=/var/tmp/mdev.$id; rm -rf $r; mkdir -p $r/repo
cp -r /repo/src /repo/Cargo.toml /repo/Cargo.lock $r/repo/
(cd $r/repo && git init -q && git apply --whitespace=nowarn /verif/seeded/$id/patch.diff) || exit 3
VERIF_REPO=$r/repo python3 /verif/tools/dev.py m$id "$rx" "$@" 2>&1 | tail -12 | cut -c1-400
rm -rf $r /var/tmp/tvdev.m$id
