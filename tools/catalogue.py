#!/usr/bin/env python3
"""My own mutation catalogue (DESIGN App. C): generates unified diffs against /repo's current tree.
`catalogue.py gen` writes /verif/catalogue/<id>.diff (+ index.json with the property each one must be
caught by, or "green" for edits that keep every property and must NOT raise an alarm)."""
import difflib, json, os, subprocess, sys
REPO = "/repo"
OUT = os.path.join(os.path.dirname(os.path.dirname(os.path.abspath(__file__))), "catalogue")

M = [
 # id, property (or green), file, old, new
 ("K01_clone_arc_without_forget", "C01 C04", "src/arc_borrow.rs", "        mem::forget(arc.clone());\n", ""),
 ("K02_borrow_with_arc_without_manuallydrop", "C01 C04", "src/arc_borrow.rs",
  "let transient = unsafe { ManuallyDrop::new(Arc::from_raw(self.0.as_ptr())) };", "let transient = unsafe { Arc::from_raw(self.0.as_ptr()) };"),
 ("K03_from_raw_offset_without_manuallydrop", "C01 C04", "src/arc.rs", "        let a = ManuallyDrop::new(a);\n        let ptr = a.ptr.as_ptr();", "        let ptr = a.ptr.as_ptr();"),
 ("K04_into_raw_without_manuallydrop", "C01 C11", "src/arc.rs", "        let this = ManuallyDrop::new(this);\n        this.as_ptr()", "        this.as_ptr()"),
 ("K05_thinarc_drop_emptied", "C01 C05", "src/thin_arc.rs",
  "        let _ = Arc::protected_from_thin(ThinArc {\n            ptr: self.ptr,\n            phantom: PhantomData,\n        });", "        let _ = self.ptr;"),
 ("K06_drop_inner_compares_with_zero", "C01", "src/arc.rs", "fetch_sub(1, Release) != 1", "fetch_sub(1, Release) != 0"),
 ("K07_from_second_recounts", "C12 C04", "src/arc_union.rs", "        unsafe { Self::new(((Arc::into_raw(other) as usize) | 0x1) as *mut _) }",
  "        core::mem::forget(other.clone());\n        unsafe { Self::new(((Arc::into_raw(other) as usize) | 0x1) as *mut _) }"),
 ("K08_offset_with_arc_without_manuallydrop", "C01 C04", "src/offset_arc.rs",
  "let transient = unsafe { ManuallyDrop::new(Arc::from_raw(self.ptr.as_ptr())) };", "let transient = unsafe { Arc::from_raw(self.ptr.as_ptr()) };"),
 ("K09_release_decrement_relaxed", "C02", "src/arc.rs", "fetch_sub(1, Release) != 1", "fetch_sub(1, Relaxed) != 1"),
 ("K10_acquire_load_removed", "C02", "src/arc.rs", "        self.inner().count.load(Acquire);\n\n        unsafe {\n            self.drop_slow();", "        unsafe {\n            self.drop_slow();"),
 ("K11_increment_by_load_store", "C02", "src/arc.rs", "let old_size = self.inner().count.fetch_add(1, Relaxed);",
  "let old_size = self.inner().count.load(Relaxed);\n        self.inner().count.store(old_size + 1, Relaxed);"),
 ("K12_get_mut_unconditional", "C03", "src/arc.rs", "    pub fn get_mut(this: &mut Self) -> Option<&mut T> {\n        if this.is_unique() {", "    pub fn get_mut(this: &mut Self) -> Option<&mut T> {\n        if true {"),
 ("K13_try_unique_branches_swapped", "C03 C09", "src/arc.rs", "    pub fn try_unique(this: Self) -> Result<UniqueArc<T>, Self> {\n        if this.is_unique() {", "    pub fn try_unique(this: Self) -> Result<UniqueArc<T>, Self> {\n        if !this.is_unique() || Self::count(&this) == 7 {"),
 ("K14_from_box_drops_value", "C06 C05", "src/header.rs", "drop(Box::<ManuallyDrop<T>>::from_raw(src as _));", "drop(Box::<T>::from_raw(src as _));"),
 ("K15_make_unique_never_clones", "C08", "src/arc.rs", "    pub fn make_unique(this: &mut Self) -> &mut UniqueArc<T> {\n        if !this.is_unique() {", "    pub fn make_unique(this: &mut Self) -> &mut UniqueArc<T> {\n        if false {"),
 ("K16_into_thin_debug_assert", "C10", "src/thin_arc.rs", "        assert_eq!(\n            a.header.length,\n            a.slice.len(),", "        debug_assert_eq!(\n            a.header.length,\n            a.slice.len(),"),
 ("K17_heap_ptr_returns_data_ptr", "C11", "src/arc.rs", "        self.p.as_ptr() as *const ArcInner<T> as *const c_void", "        self.as_ptr() as *const c_void"),
 ("K18_arc_ne_wrong_connective", "C14", "src/arc.rs", "!Self::ptr_eq(self, other) && *(*self) != *(*other)", "!Self::ptr_eq(self, other) || *(*self) != *(*other)"),
 ("K19_arc_lt_delegates_to_le", "C14", "src/arc.rs", "        *(*self) < *(*other)", "        *(*self) <= *(*other)"),
 ("K20_arc_hash_hashes_pointer", "C14", "src/arc.rs", "        (**self).hash(state)", "        (self.ptr() as *const u8 as usize).hash(state)"),
 ("K21_unique_write_assigns", "C15", "src/unique_arc.rs", "            ptr.write(val);", "            *ptr = val;"),
 ("K22_overflow_check_removed", "C16", "src/arc.rs", "        if old_size > MAX_REFCOUNT {\n            abort();\n        }", "        let _ = old_size;"),
 ("K23_overflow_limit_raised", "C16", "src/arc.rs", "if old_size > MAX_REFCOUNT {", "if old_size > usize::MAX - 2 {"),
 ("K24_union_borrow_keeps_tag", "C12", "src/arc_union.rs", "let ptr = ((self.p.as_ptr() as usize) & !0x1) as *const B;", "let ptr = (self.p.as_ptr() as usize) as *const B;"),
 ("K25_strong_count_thin_reads_other_word", "C04", "src/thin_arc.rs", "        Self::with_arc(this, Arc::strong_count)", "        Self::with_arc(this, |a| a.header.length)"),
 ("K26_arc_deserialize_via_default_then_overwrite", "C17", "src/arc.rs", "        T::deserialize(deserializer).map(Arc::new)", "        T::deserialize(deserializer).map(|v| { let a = Arc::new(v); let b = a.clone(); core::mem::forget(b); a })"),
 ("K27_outer_pad_to_align_removed", "C05", "src/arc.rs", None, None),  # special: second occurrence
 ("K28_offset_clone_arc_double", "C04 C01", "src/offset_arc.rs", "        OffsetArc::with_arc(self, |a| a.clone())", "        OffsetArc::with_arc(self, |a| { core::mem::forget(a.clone()); a.clone() })"),
 ("K29_as_mut_slice_no_gate", "C15 C03", "src/arc.rs", "    pub fn as_mut_slice(&mut self) -> &mut [MaybeUninit<T>] {\n        must_be_unique(self)", "    pub fn as_mut_slice(&mut self) -> &mut [MaybeUninit<T>] {\n        unsafe { &mut (*self.ptr()).data }"),
 ("K30_header_erasure_wrong_direction_clone", "C06 C01", "src/header.rs", "impl<T: ?Sized> From<Arc<T>> for Arc<HeaderSlice<(), T>> {\n    fn from(this: Arc<T>) -> Self {\n        // Safety: `T` and `HeaderSlice<(), T>` has the same layout\n        unsafe { Arc::from_raw_inner(Arc::into_raw_inner(this) as _) }",
  "impl<T: ?Sized> From<Arc<T>> for Arc<HeaderSlice<(), T>> {\n    fn from(this: Arc<T>) -> Self {\n        // Safety: `T` and `HeaderSlice<(), T>` has the same layout\n        unsafe { Arc::from_raw_inner(Arc::into_raw_inner(this.clone()) as _) }"),
 # ---- edits that keep every property: must stay green ----
 ("G01_acqrel_decrement_without_load", "green", "src/arc.rs", None, None),
 ("G02_acquire_fence_instead_of_load", "green", "src/arc.rs", "        self.inner().count.load(Acquire);\n\n        unsafe {\n            self.drop_slow();", "        atomic::fence(Acquire);\n\n        unsafe {\n            self.drop_slow();"),
 ("G03_inner_pad_to_align_removed", "green", "src/arc.rs", "            .extend(Layout::array::<T>(len).unwrap())\n            .unwrap()\n            .0\n            .pad_to_align();", "            .extend(Layout::array::<T>(len).unwrap())\n            .unwrap()\n            .0;"),
 ("G04_clone_limit_ge", "green", "src/arc.rs", "if old_size > MAX_REFCOUNT {", "if old_size >= MAX_REFCOUNT {"),
 ("G05_is_unique_inlined", "green", "src/arc.rs", "        Self::count(self) == 1", "        self.inner().count.load(Acquire) == 1"),
 ("G06_seqcst_everywhere", "green", "src/arc.rs", None, None),
 ("G08_arc_ne_as_not_eq", "green", "src/arc.rs", "        !Self::ptr_eq(self, other) && *(*self) != *(*other)", "        !(self == other)"),
 ("G09_arc_le_via_partial_cmp", "green", "src/arc.rs", "        *(*self) <= *(*other)", "        matches!((**self).partial_cmp(&**other), Some(Ordering::Less) | Some(Ordering::Equal))"),
 ("G07_locals_renamed_and_reordered", "green", "src/arc.rs", "        let this = ManuallyDrop::new(this);\n        this.as_ptr()", "        let guard = ManuallyDrop::new(this);\n        let raw = guard.as_ptr();\n        raw"),
]


def special(mid, src):
    if mid == "K27_outer_pad_to_align_removed":
        pat = ".unwrap()\n            .0\n            .pad_to_align();"
        i = src.index(pat)
        j = src.index(pat, i + 1)  # the one in try_allocate_for_layout
        return src[:j] + ".unwrap()\n            .0;" + src[j + len(pat):]
    if mid == "G01_acqrel_decrement_without_load":
        s = src.replace("fetch_sub(1, Release) != 1", "fetch_sub(1, atomic::Ordering::AcqRel) != 1")
        return s.replace("        self.inner().count.load(Acquire);\n\n        unsafe {\n            self.drop_slow();", "        unsafe {\n            self.drop_slow();")
    if mid == "G06_seqcst_everywhere":
        s = src.replace("fetch_sub(1, Release)", "fetch_sub(1, atomic::Ordering::SeqCst)").replace("count.load(Acquire)", "count.load(atomic::Ordering::SeqCst)")
        return s.replace("fetch_add(1, Relaxed)", "fetch_add(1, atomic::Ordering::SeqCst)")
    raise KeyError(mid)


def gen():
    os.makedirs(OUT, exist_ok=True)
    index = {}
    for mid, prop, f, old, new in M:
        src = open(os.path.join(REPO, f)).read()
        if old is None:
            mut = special(mid, src)
        else:
            if src.count(old) != 1:
                print("SKIP %s: pattern occurs %d times" % (mid, src.count(old)))
                continue
            mut = src.replace(old, new)
        diff = "".join(difflib.unified_diff(src.splitlines(True), mut.splitlines(True), "a/" + f, "b/" + f))
        open(os.path.join(OUT, mid + ".diff"), "w").write(diff)
        index[mid] = dict(expect=prop, file=f)
    json.dump(index, open(os.path.join(OUT, "index.json"), "w"), indent=1)
    print(len(index), "mutations written to", OUT)


def suite():
    """which catalogue entries keep the crate compiling and the existing suite green (run in a scratch copy)"""
    import shutil
    idx = json.load(open(os.path.join(OUT, "index.json")))
    for mid in sorted(idx):
        d = "/var/tmp/cat.%s" % mid
        shutil.rmtree(d, ignore_errors=True)
        os.makedirs(d)
        subprocess.check_call("cp -r /repo/src /repo/Cargo.toml /repo/Cargo.lock %s/" % d, shell=True)
        r = subprocess.run(["patch", "-p1", "-s", "-i", os.path.join(OUT, mid + ".diff")], cwd=d)
        p = subprocess.run(["cargo", "test", "--offline", "-q"], cwd=d, env=dict(os.environ, CARGO_NET_OFFLINE="true", CARGO_TARGET_DIR="/var/tmp/cat.target"),
                           stdout=subprocess.PIPE, stderr=subprocess.STDOUT, text=True)
        idx[mid]["suite_passes"] = p.returncode == 0
        print(mid, "suite passes" if p.returncode == 0 else "SUITE FAILS")
        shutil.rmtree(d, ignore_errors=True)
    json.dump(idx, open(os.path.join(OUT, "index.json"), "w"), indent=1)
    shutil.rmtree("/var/tmp/cat.target", ignore_errors=True)


if __name__ == "__main__":
    {"gen": gen, "suite": suite}[sys.argv[1]]()
