#!/usr/bin/env python3
"""Shared machinery for /verif/check: scratch copy of /repo, contract injector, Kani runner,
terse-output parser, Verus runner, evidence writer.  Standard library only."""
import atexit, json, os, re, shutil, signal, subprocess, sys, time, hashlib

VERIF = os.path.dirname(os.path.dirname(os.path.abspath(__file__)))
REPO = os.environ.get("VERIF_REPO", "/repo")
SCRATCH_ROOT = os.environ.get("VERIF_SCRATCH", os.environ.get("XDG_RUNTIME_DIR") or "/var/tmp")
SRC_FILES = ["arc.rs", "arc_borrow.rs", "arc_union.rs", "header.rs", "offset_arc.rs",
             "thin_arc.rs", "unique_arc.rs", "arc_swap_support.rs",
             "iterator_as_exact_size_iterator.rs", "lib.rs"]
# source file -> harness file (child module `kani_h` of that source file)
HARNESS_FILES = {
    "arc.rs": "arc_h.rs", "header.rs": "header_h.rs", "thin_arc.rs": "thin_h.rs",
    "offset_arc.rs": "offset_h.rs", "arc_borrow.rs": "borrow_h.rs", "arc_union.rs": "union_h.rs",
    "unique_arc.rs": "unique_h.rs", "arc_swap_support.rs": "swap_h.rs",
    "iterator_as_exact_size_iterator.rs": "iter_h.rs",
}
MOD_OF = {"arc.rs": "arc", "header.rs": "header", "thin_arc.rs": "thin_arc", "offset_arc.rs": "offset_arc",
          "arc_borrow.rs": "arc_borrow", "arc_union.rs": "arc_union", "unique_arc.rs": "unique_arc",
          "arc_swap_support.rs": "arc_swap_support",
          "iterator_as_exact_size_iterator.rs": "iterator_as_exact_size_iterator"}

# abbreviations accepted in the sidecar files
ABBREV = [("V", "crate::vrt"), ("TH", "crate::thin_arc::kani_h"), ("UH", "crate::arc_union::kani_h"),
          ("QH", "crate::unique_arc::kani_h")]
_scratch_dirs = []


class Undecided(Exception):
    """Anything that prevents a decision (lost anchor, compile error, timeout): exit 2."""


def _cleanup():
    for d in _scratch_dirs:
        shutil.rmtree(d, ignore_errors=True)


atexit.register(_cleanup)
for _s in (signal.SIGTERM, signal.SIGINT, signal.SIGHUP):
    signal.signal(_s, lambda *a: sys.exit(130))


def new_scratch(tag):
    d = os.path.join(SCRATCH_ROOT, "triomphe-verif.%d.%s" % (os.getpid(), tag))
    shutil.rmtree(d, ignore_errors=True)
    os.makedirs(d)
    _scratch_dirs.append(d)
    return d


def drop_scratch(d):
    shutil.rmtree(d, ignore_errors=True)
    if d in _scratch_dirs:
        _scratch_dirs.remove(d)


# --------------------------------------------------------------------------------------------
# contracts sidecar
# --------------------------------------------------------------------------------------------
def parse_contracts(path):
    """-> list of dict(fn, ordinal, props, clauses=[(kind, expr)], line)"""
    out, cur = [], None
    for ln, raw in enumerate(open(path), 1):
        line = raw.rstrip("\n")
        if not line.strip() or line.lstrip().startswith("#"):
            continue
        if line.startswith("@fn"):
            m = re.match(r"@fn\s+(\w+)(\?)?(?:\s+(\d+))?(?:\s+in\s+`([^`]*)`)?\s*\|\s*(.*)$", line)
            if not m:
                raise Undecided("%s:%d: bad @fn line" % (path, ln))
            cur = dict(fn=m.group(1), optional=bool(m.group(2)), ordinal=int(m.group(3) or 1), ctx=m.group(4), props=m.group(5).split(),
                       clauses=[], line=ln, cfg=None)
            out.append(cur)
            continue
        if cur is None:
            raise Undecided("%s:%d: clause before @fn" % (path, ln))
        s = line.strip()
        m = re.match(r"(requires|ensures|modifies|cfg)\s+(.*)$", s)
        if m and m.group(1) == "cfg":
            cur["cfg"] = m.group(2)
        elif m:
            cur["clauses"].append([m.group(1), m.group(2)])
        else:
            if not cur["clauses"]:
                raise Undecided("%s:%d: continuation without clause" % (path, ln))
            cur["clauses"][-1][1] += " " + s
    return out


def all_contracts():
    res = {}
    cdir = os.path.join(VERIF, "contracts")
    for f in sorted(os.listdir(cdir)):
        if f.endswith(".contracts"):
            src = f[:-len(".contracts")] + ".rs"
            res[src] = parse_contracts(os.path.join(cdir, f))
    return res


def _tests_start(lines):
    for i, l in enumerate(lines):
        if l.strip() == "#[cfg(test)]" and i + 1 < len(lines) and lines[i + 1].lstrip().startswith("mod tests"):
            return i
    return len(lines)


def find_fn_line(lines, name, ordinal, ctx=None):
    """n-th `fn name` of the file (outside the tests module); with a context (the text of an
    `impl ...` header line) the n-th `fn name` AFTER the first line containing that text — so that
    adding or removing an unrelated function of the same name elsewhere does not move the anchor."""
    end = _tests_start(lines)
    pat = re.compile(r"^\s*(?:pub(?:\([^)]*\))?\s+)?(?:const\s+)?(?:unsafe\s+)?fn\s+%s\b" % re.escape(name))
    k = 0
    start = 0
    if ctx:
        hits = [i for i in range(end) if ctx in lines[i]]
        if not hits:
            return None
        start = hits[0]
    for i in range(start, end):
        if pat.match(lines[i]):
            k += 1
            if k == ordinal:
                return i
    return None


def fn_params(lines, idx):
    """names of the non-self parameters of the fn whose signature starts at lines[idx] (None for a
    parameter that is a pattern or `_`)"""
    text = " ".join(lines[idx: idx + 12])
    i = text.index("fn ")
    j = text.index("(", i)
    # generic parameter lists may contain parentheses-free text only; find the matching ')'
    depth, k = 0, j
    while k < len(text):
        if text[k] in "(<[":
            depth += 1
        elif text[k] in ")>]":
            if text[k] == ">" and k > 0 and text[k - 1] == "-":
                pass
            else:
                depth -= 1
                if depth == 0:
                    break
        k += 1
    inside = text[j + 1: k]
    parts, depth, cur = [], 0, ""
    for ch_i, ch in enumerate(inside):
        if ch in "(<[":
            depth += 1
        elif ch in ")>]" and not (ch == ">" and ch_i > 0 and inside[ch_i - 1] == "-"):
            depth -= 1
        if ch == "," and depth == 0:
            parts.append(cur)
            cur = ""
        else:
            cur += ch
    if cur.strip():
        parts.append(cur)
    names = []
    for prm in parts:
        prm = prm.strip()
        if re.match(r"^(&\s*('\w+\s+)?)?(mut\s+)?self\b", prm):
            continue
        m = re.match(r"^(?:mut\s+)?(\w+)\s*:", prm)
        names.append(m.group(1) if m and m.group(1) != "_" else None)
    return names


def inject_contracts(src_dir, contracts, report):
    """Adds cfg_attr(kani, kani::requires/ensures/modifies) lines above the anchored fn lines."""
    for src, items in contracts.items():
        p = os.path.join(src_dir, src)
        if not os.path.exists(p):
            raise Undecided("source file %s not found in the tree" % src)
        lines = open(p).read().split("\n")
        ins = []
        for it in items:
            idx = find_fn_line(lines, it["fn"], it["ordinal"], it.get("ctx"))
            if idx is None and it.get("optional"):
                report.append(dict(file=src, fn=it["fn"], ordinal=it["ordinal"], props=it["props"], clauses=[],
                                   skipped="optional anchor not found (private helper removed or inlined)"))
                continue
            if idx is None:
                raise Undecided("anchor lost: %s `fn %s` #%d%s" % (src, it["fn"], it["ordinal"], (" in `%s`" % it["ctx"]) if it.get("ctx") else ""))
            indent = re.match(r"\s*", lines[idx]).group(0)
            new = []
            params = fn_params(lines, idx)
            for kind, expr in it["clauses"]:
                def _sub(m, params=params, it=it, src=src):
                    n = int(m.group(1))
                    if n < 1 or n > len(params) or params[n - 1] is None:
                        raise Undecided("contract on %s fn %s refers to parameter $%d which has no plain name in this tree" % (src, it["fn"], n))
                    return params[n - 1]
                expr = re.sub(r"\$(\d+)", _sub, expr)
                for short, full in ABBREV:
                    expr = re.sub(r"\b%s::" % short, full + "::", expr)
                cond = "kani" if not it.get("cfg") else "all(kani, %s)" % it["cfg"]
                new.append("%s#[cfg_attr(%s, kani::%s(%s))]" % (indent, cond, kind, expr))
            ins.append((idx, new))
            report.append(dict(file=src, fn=it["fn"], ordinal=it["ordinal"], props=it["props"],
                               clauses=["%s %s" % (k, e) for k, e in it["clauses"]]))
        for idx, new in sorted(ins, key=lambda t: -t[0]):
            lines[idx:idx] = new
        open(p, "w").write("\n".join(lines))


# --------------------------------------------------------------------------------------------
# harness tags
# --------------------------------------------------------------------------------------------
TAG_RE = re.compile(r"^\s*//\s*@h\s+(.*)$")
FN_RE = re.compile(r"\b(c\d\d_\w+)\b")


def parse_harness_tags():
    """-> list of dict(name, file, module, props, tier, build, kind, site, bounded, finding, features, dbg)"""
    hs = []
    hdir = os.path.join(VERIF, "harness")
    inv = {v: k for k, v in HARNESS_FILES.items()}
    for f in sorted(os.listdir(hdir)):
        if f not in inv:
            continue
        pending = None
        for ln, line in enumerate(open(os.path.join(hdir, f)), 1):
            m = TAG_RE.match(line)
            if m:
                kv = {}
                for tok in re.findall(r'(\w+)=("(?:[^"]*)"|\S+)', m.group(1)):
                    kv[tok[0]] = tok[1].strip('"')
                pending = kv
                continue
            if pending is not None:
                m2 = FN_RE.search(line)
                if m2:
                    kv = pending
                    pending = None
                    hs.append(dict(
                        name=m2.group(1), file=f, module=MOD_OF[inv[f]] + "::kani_h" + ("::" + kv["mod"] if "mod" in kv else ""),
                        props=kv.get("props", "").split(","), tier=kv.get("tier", "quick"),
                        build=kv.get("build", "plain"), kind=kv.get("kind", "proof"),
                        site=kv.get("site"), bounded=kv.get("bounded"), finding=kv.get("finding"),
                        features=kv.get("features", "default"), dbg=kv.get("dbg", "off"),
                        fuc=kv.get("fuc", ""), note=kv.get("note", ""), mode=kv.get("mode", "assert"),
                        line=ln))
    names = [h["name"] for h in hs]
    dup = set(n for n in names if names.count(n) > 1)
    if dup:
        raise Undecided("duplicate harness names: %s" % sorted(dup))
    return hs


# --------------------------------------------------------------------------------------------
# scratch build
# --------------------------------------------------------------------------------------------
def prepare_scratch(tag, shim=False, dbg=False):
    """Copy /repo's working tree, inject contracts + harness modules. Returns (dir, report)."""
    d = new_scratch(tag)
    os.makedirs(os.path.join(d, "src"))
    for f in ("Cargo.toml", "Cargo.lock"):
        if not os.path.exists(os.path.join(REPO, f)):
            raise Undecided("%s missing in %s" % (f, REPO))
        shutil.copy(os.path.join(REPO, f), d)
    for f in os.listdir(os.path.join(REPO, "src")):
        if f.endswith(".rs"):
            shutil.copy(os.path.join(REPO, "src", f), os.path.join(d, "src", f))
    with open(os.path.join(d, "Cargo.toml"), "a") as fh:
        fh.write("\n[profile.dev]\ndebug-assertions = %s\noverflow-checks = true\n" % ("true" if dbg else "false"))
        fh.write("\n[lints.rust]\nunexpected_cfgs = { level = \"allow\" }\n")
    os.makedirs(os.path.join(d, ".cargo"))
    with open(os.path.join(d, ".cargo", "config.toml"), "w") as fh:
        fh.write("[net]\noffline = true\n")
    report = []
    inject_contracts(os.path.join(d, "src"), all_contracts(), report)
    # harness modules: children of the source files
    os.makedirs(os.path.join(d, "src", "kani_h"))
    for src, hf in HARNESS_FILES.items():
        hp = os.path.join(VERIF, "harness", hf)
        sp = os.path.join(d, "src", src)
        if not os.path.exists(hp):
            continue
        if not os.path.exists(sp):
            raise Undecided("source file %s not found" % src)
        shutil.copy(hp, os.path.join(d, "src", "kani_h", hf))
        with open(sp, "a") as fh:
            fh.write("\n#[cfg(kani)]\n#[path = \"kani_h/%s\"]\npub(crate) mod kani_h;\n" % hf)
    shutil.copy(os.path.join(VERIF, "harness", "vrt.rs"), os.path.join(d, "src", "vrt.rs"))
    lib = os.path.join(d, "src", "lib.rs")
    s = open(lib).read()
    anchor = "mod arc;"
    if anchor not in s:
        raise Undecided("anchor lost: lib.rs `mod arc;`")
    s = s.replace(anchor, "#[cfg(kani)]\n#[macro_use]\npub(crate) mod vrt;\n" + anchor, 1)
    open(lib, "w").write(s)
    if shim:
        for f, old, new in (
            ("arc.rs", "use core::sync::atomic;", "use crate::vrt::atomic;"),
            ("unique_arc.rs", "use core::sync::atomic::AtomicUsize;", "use crate::vrt::atomic::AtomicUsize;"),
        ):
            p = os.path.join(d, "src", f)
            s = open(p).read()
            if s.count(old) != 1:
                raise Undecided("shim anchor lost: %s `%s`" % (f, old))
            open(p, "w").write(s.replace(old, new))
        # any other direct use of the real atomics on the count would bypass the trace
        for f in SRC_FILES:
            p = os.path.join(d, "src", f)
            if not os.path.exists(p):
                continue
            body = open(p).read()
            body = body[: body.find("#[cfg(test)]\nmod tests")] if "#[cfg(test)]\nmod tests" in body else body
            body = body.split("#[cfg(kani)]\n#[path")[0]
            if re.search(r"core::sync::atomic::(?!Ordering)", body):
                raise Undecided("shim: %s reaches core::sync::atomic by a path the shim does not cover" % f)
    return d, report


def tree_fingerprint():
    h = hashlib.sha256()
    for f in sorted(os.listdir(os.path.join(REPO, "src"))):
        if f.endswith(".rs"):
            h.update(f.encode())
            h.update(open(os.path.join(REPO, "src", f), "rb").read())
    return h.hexdigest()[:16]


# --------------------------------------------------------------------------------------------
# Kani runner + terse parser
# --------------------------------------------------------------------------------------------
def run_kani(d, harnesses, features="default", jobs=16, timeout=3000, extra=None, log=None, harness_timeout=None):
    """Run the given harnesses (full paths) in one cargo kani invocation. -> (rc, output, wall)"""
    cmd = ["cargo", "kani", "-Z", "function-contracts", "-Z", "stubbing",
           "--output-format=terse", "-j", str(jobs), "--exact"]
    if features == "none":
        cmd += ["--no-default-features"]
    elif features != "default":
        cmd += ["--features", features]
    for h in harnesses:
        cmd += ["--harness", h]
    if harness_timeout:
        cmd += ["-Z", "unstable-options", "--harness-timeout", "%ds" % harness_timeout]
    if extra:
        cmd += extra
    env = dict(os.environ, CARGO_NET_OFFLINE="true", CARGO_TARGET_DIR=os.path.join(d, "target"))
    t0 = time.time()
    try:
        p = subprocess.run(cmd, cwd=d, env=env, stdout=subprocess.PIPE, stderr=subprocess.STDOUT,
                           timeout=timeout, text=True, errors="replace")
        out, rc = p.stdout, p.returncode
    except subprocess.TimeoutExpired as e:
        out = (e.stdout or "") if isinstance(e.stdout, str) else (e.stdout or b"").decode("utf8", "replace")
        out += "\n*** TIMEOUT after %ds\n" % timeout
        rc = -9
    wall = time.time() - t0
    if log:
        with open(log, "w") as fh:
            fh.write("$ " + " ".join(cmd) + "\n" + out)
    return rc, out, wall


def parse_terse(out):
    """-> dict harness -> dict(status, checks, failed, unreachable, failed_checks=[(desc, loc)],
    covers=(sat, total) or None, time, stubs_seen)"""
    res = {}
    cur_by_thread = {}
    cur = None
    lines = out.split("\n")
    i = 0
    single = None
    while i < len(lines):
        l = lines[i]
        m = re.match(r"(?:Thread (\d+): )?Checking harness (\S+?)\.\.\.", l)
        if m:
            th = m.group(1) or "0"
            cur_by_thread[th] = m.group(2)
            res[m.group(2)] = dict(status="UNKNOWN", checks=0, failed=0, unreachable=0, failed_checks=[],
                                   covers=None, time=0.0, raw=[])
            single = m.group(2)
            i += 1
            continue
        m = re.match(r"Thread (\d+):\s*$", l)
        if m:
            cur = cur_by_thread.get(m.group(1))
            i += 1
            continue
        if l.startswith("VERIFICATION RESULT:") and cur is None:
            cur = single
        if cur is not None and cur in res:
            r = res[cur]
            r["raw"].append(l)
            m = re.match(r"\s*\*\* (\d+) of (\d+) failed(?: \((.*)\))?", l)
            if m:
                r["failed"], r["checks"] = int(m.group(1)), int(m.group(2))
                if m.group(3):
                    mu = re.search(r"(\d+) unreachable", m.group(3))
                    if mu:
                        r["unreachable"] = int(mu.group(1))
            m = re.match(r"\s*\*\* (\d+) of (\d+) cover properties satisfied", l)
            if m:
                r["covers"] = (int(m.group(1)), int(m.group(2)))
            m = re.match(r"Failed Checks: (.*)$", l)
            if m:
                desc, j = m.group(1), i + 1
                while j < len(lines) and not lines[j].strip().startswith("File:") and j < i + 40 \
                        and not lines[j].startswith(("Failed Checks:", "VERIFICATION", "Thread ")):
                    desc += " " + lines[j].strip()
                    j += 1
                loc = lines[j].strip() if j < len(lines) and lines[j].strip().startswith("File:") else ""
                r["failed_checks"].append((desc.strip(), loc))
            m = re.match(r"VERIFICATION:- (\w+)(.*)$", l)
            if m:
                r["status"] = m.group(1)
                r["status_note"] = m.group(2).strip()
            m = re.match(r"Verification Time: ([\d.]+)s", l)
            if m:
                r["time"] = float(m.group(1))
                cur = None
        i += 1
    return res


# --------------------------------------------------------------------------------------------
# Verus
# --------------------------------------------------------------------------------------------
def run_verus(path, timeout=600):
    t0 = time.time()
    try:
        p = subprocess.run(["verus", path, "--output-json", "--time"], stdout=subprocess.PIPE,
                           stderr=subprocess.PIPE, text=True, timeout=timeout, cwd=os.path.dirname(path))
    except subprocess.TimeoutExpired:
        return dict(ok=False, verified=0, errors=-1, wall=time.time() - t0, stderr="TIMEOUT", smt_ms=0)
    wall = time.time() - t0
    verified = errors = 0
    smt = 0
    try:
        j = json.loads(p.stdout)
        vr = j.get("verification-results", {})
        verified, errors = vr.get("verified", 0), vr.get("errors", 0)
        smt = j.get("times-ms", {}).get("smt", {}).get("total", 0)
        ok = bool(vr.get("success", False)) and errors == 0
    except Exception:
        ok = False
        errors = -1
    return dict(ok=ok, verified=verified, errors=errors, wall=wall, stderr=p.stderr[-6000:], smt_ms=smt,
                stdout=p.stdout[-4000:])
