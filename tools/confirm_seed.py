#!/usr/bin/env python3
"""Independent confirmation of a seeded change produced by a sub-agent, in its scratch worktree:
existing suite still passes with it, the demonstration fails with it and passes without it.
usage: confirm_seed.py <Cnn> <A|B> [--miri]   (worktree /tmp/wt/<Cnn>, files out/mutK.diff, out/demoK.rs)"""
import json, os, shutil, subprocess, sys
prop, k = sys.argv[1], sys.argv[2]
miri = "--miri" in sys.argv
wt = os.environ.get("SEED_WT_ROOT", "/tmp/wt") + "/%s" % prop
env = dict(os.environ, CARGO_NET_OFFLINE="true")


def run(cmd, **kw):
    p = subprocess.run(cmd, cwd=wt, env=dict(env, **kw.pop("env", {})), stdout=subprocess.PIPE, stderr=subprocess.STDOUT, text=True, **kw)
    return p.returncode, p.stdout


def demo_cmd():
    if miri:
        return ["cargo", "+nightly", "miri", "test", "--offline", "--test", "demo%s" % k]
    return ["cargo", "test", "--offline", "--test", "demo%s" % k] + (["--features", os.environ["SEED_FEATURES"]] if os.environ.get("SEED_FEATURES") else []) + (["--no-default-features"] if os.environ.get("SEED_NO_DEFAULT") else [])


res = dict(property=prop, variant=k, miri=miri, features=os.environ.get("SEED_FEATURES", "default"))
run(["git", "checkout", "--", "src"])
shutil.rmtree(os.path.join(wt, "tests"), ignore_errors=True)
rc, out = run(["git", "apply", "out/mut%s.diff" % k])
res["applies"] = rc == 0
rc, out = run(["cargo", "test", "--offline"])
res["suite_passes_with_change"] = rc == 0
res["suite_tail"] = [l for l in out.split("\n") if l.startswith("test result")]
os.makedirs(os.path.join(wt, "tests"), exist_ok=True)
shutil.copy(os.path.join(wt, "out", "demo%s.rs" % k), os.path.join(wt, "tests", "demo%s.rs" % k))
rc, out = run(demo_cmd(), env=dict(MIRIFLAGS="-Zmiri-many-seeds=0..4") if miri else {})
res["demo_fails_with_change"] = rc != 0
res["demo_with_change_tail"] = out.strip().split("\n")[-6:]
run(["git", "checkout", "--", "src"])
rc, out = run(demo_cmd(), env=dict(MIRIFLAGS="-Zmiri-many-seeds=0..4") if miri else {})
res["demo_passes_without_change"] = rc == 0
res["demo_without_change_tail"] = out.strip().split("\n")[-4:]
shutil.rmtree(os.path.join(wt, "tests"), ignore_errors=True)
res["confirmed"] = all(res[x] for x in ("applies", "suite_passes_with_change", "demo_fails_with_change", "demo_passes_without_change"))
print(json.dumps(res, indent=1))
json.dump(res, open(os.path.join(wt, "out", "confirm%s.json" % k), "w"), indent=1)
