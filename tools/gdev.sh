#!/bin/sh
# usage: gdev.sh <catalogue-entry> <harness-regex> [dev.py flags]
id=$1; rx=$2; shift 2
r=/var/tmp/gdev.$id; rm -rf $r; mkdir -p $r/repo
cp -r /repo/src /repo/Cargo.toml /repo/Cargo.lock $r/repo/
(cd $r/repo && git init -q && git apply --whitespace=nowarn /verif/catalogue/$id.diff) || exit 3
VERIF_REPO=$r/repo python3 /verif/tools/dev.py g$id "$rx" "$@" 2>&1 | tail -8 | cut -c1-300
rm -rf $r /var/tmp/tvdev.g$id
