#!/usr/bin/env python3
"""Development helper: dev.py <scratch-tag> <harness-name-regex> [--shim] [--dbg] [--feat F] [--tier thorough]
Builds the injected scratch at /var/tmp/tvdev.<tag>, runs the matching harnesses, prints a summary."""
import sys, os, re, time
sys.path.insert(0, os.path.dirname(os.path.abspath(__file__)))
import vlib, shutil
sys.path.insert(0, vlib.VERIF)
import importlib.machinery, importlib.util
loader = importlib.machinery.SourceFileLoader("check", os.path.join(vlib.VERIF, "check"))
spec = importlib.util.spec_from_loader("check", loader)
chk = importlib.util.module_from_spec(spec)
loader.exec_module(chk)


def _ns(tag):
    d = os.path.join(vlib.SCRATCH_ROOT, "tvdev." + tag)
    for sub in ("src", ".cargo", "Cargo.toml", "Cargo.lock"):
        p = os.path.join(d, sub)
        if os.path.isdir(p):
            shutil.rmtree(p)
        elif os.path.exists(p):
            os.remove(p)
    os.makedirs(d, exist_ok=True)
    return d


vlib.new_scratch = _ns
tag, rx = sys.argv[1], re.compile(sys.argv[2])
feat = sys.argv[sys.argv.index("--feat") + 1] if "--feat" in sys.argv else None
hs = [h for h in vlib.parse_harness_tags() if rx.search(h["name"])]
if "--tier" not in sys.argv:
    pass
builds = {}
for h in hs:
    builds.setdefault((h["build"], feat or h["features"], h["dbg"]), []).append(h)
t0 = time.time()
bad = 0
for (build, feats, dbg), ghs in builds.items():
    d, rep = vlib.prepare_scratch(tag, shim=(build == "shim") or "--shim" in sys.argv, dbg=(dbg == "on") or "--dbg" in sys.argv)
    vlib._scratch_dirs.clear()
    names = ["%s::%s" % (h["module"], h["name"]) for h in ghs]
    rc, out, wall = vlib.run_kani(d, names, features=feats, timeout=3600, log=os.path.join(d, "run.log"))
    res = vlib.parse_terse(out)
    if "error: could not compile" in out or "error[E" in out or "error:" in out and not res:
        print("\n".join(l for l in out.split("\n") if "error" in l or l.startswith("  -->"))[:6000])
    for h, n in zip(ghs, names):
        r = res.get(n)
        v, detail = chk.classify(h, r)
        if v != "ok":
            bad += 1
        print("%-9s %-62s %6.1fs %s %s" % (v.upper(), h["name"], (r or {}).get("time", 0), (r or {}).get("covers"), detail[:400] if v != "ok" else ""))
    print("build %s/%s/%s: %d harnesses, wall %.0fs" % (build, feats, dbg, len(ghs), wall))
print("total %.0fs, not ok: %d" % (time.time() - t0, bad))
