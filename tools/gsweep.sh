#!/bin/sh
# development sweep over the harmless refactors of the catalogue (G*): every listed property's
# quick check must stay green (rc=0) on each; anything else is a false alarm of the machinery.
# run from a snapshot (vp run -- tools/gsweep.sh [Gnn-prefix ...])
here=$(cd "$(dirname "$0")/.." && pwd)
cd "$here"
python3 - "$@" <<'PY'
import json,subprocess,sys
idx=json.load(open('catalogue/index.json'))
old={'G01_acqrel_decrement_without_load':'C02 C01','G02_acquire_fence_instead_of_load':'C02','G03_inner_pad_to_align_removed':'C05','G04_clone_limit_ge':'C16','G05_is_unique_inlined':'C03','G06_seqcst_everywhere':'C02','G07_locals_renamed_and_reordered':'C11','G08_arc_ne_as_not_eq':'C14','G09_arc_le_via_partial_cmp':'C14'}
want=sys.argv[1:]
for mid in sorted(idx):
    e=idx[mid]
    if e.get('expect')!='green': continue
    if want and not any(mid.startswith(w) for w in want): continue
    props=(e.get('green_props') or old[mid]).split()
    subprocess.call(['python3','tools/mutate.py',mid,'catalogue/%s.diff'%mid]+props+['--no-playback'])
PY
