#!/bin/sh
# development sweep over my own catalogue (suite-passing entries only); run from a snapshot
here=$(cd "$(dirname "$0")/.." && pwd)
cd "$here"
python3 - <<'PY'
import json,subprocess,os
idx=json.load(open('catalogue/index.json'))
for mid in sorted(idx):
    e=idx[mid]
    if not e.get('suite_passes'): continue
    props=e['expect'].split() if e['expect']!='green' else {'G01_acqrel_decrement_without_load':['C02','C01'],'G02_acquire_fence_instead_of_load':['C02'],'G03_inner_pad_to_align_removed':['C05'],'G04_clone_limit_ge':['C16'],'G05_is_unique_inlined':['C03'],'G06_seqcst_everywhere':['C02'],'G07_locals_renamed_and_reordered':['C11']}[mid]
    subprocess.call(['python3','tools/mutate.py',mid,'catalogue/%s.diff'%mid]+props[:1]+['--no-playback'])
PY
