#!/bin/sh
here=$(cd "$(dirname "$0")/.." && pwd)
cd "$here"
for id in $(ls seeded | grep '^R7_'); do
  prop=$(echo $id | sed "s/^R7_//" | cut -c1-3)
  python3 tools/mutate.py $id seeded/$id/patch.diff $prop --no-playback
done
