#!/bin/sh
# development sweep over seeded/ (run it from a snapshot: `vp run -- tools/sweep.sh [ids...]`)
here=$(cd "$(dirname "$0")/.." && pwd)
cd "$here"
if [ $# -gt 0 ]; then list="$@"; else list=$(ls seeded); fi
for id in $list; do
  prop=$(echo $id | sed "s/^R2_//" | cut -c1-3)
  python3 tools/mutate.py $id seeded/$id/patch.diff $prop --no-playback
done
