"""Per-property metadata used by the driver for the evidence files."""

TRUSTED_BASE = [
    "Kani 0.68.0 MIR->GOTO translation and its models of intrinsics, atomics (sequential) and std::process::abort",
    "CBMC 6.11.0 + CaDiCaL",
    "ghost allocator stubs replacing alloc::alloc::{alloc,dealloc,dealloc_nonnull,realloc,realloc_nonnull,alloc_zeroed} (every obligation ends in a cover that is reachable only if the alloc stub ran)",
    "rustc front end of Kani's pinned nightly toolchain",
    "Verus 0.2026.09.13 / Z3 for the lemma files (layout_extracted.rs: statements verbatim from /repo/src/arc.rs; spec_forms.rs: the closed forms of harness/vrt.rs verbatim; history_lemma.rs: generated from contracts/ops.toml); assume_specification of core::alloc::Layout API",
    "third-party crates serde, stable_deref_trait, unsize, arc-swap executed as is",
]

ASSUMPTIONS = [
    "generics are sampled: each obligation is proved per monomorphic witness type; parametricity of the code in T beyond size/alignment/drop glue/metadata is assumed (Verus layout lemmas remove this for the layout arithmetic only)",
    "the allocator returns non-null memory aligned as requested (kani::assume in the ghost allocator) and never aliases live blocks",
    "no threads, no weak memory, no unwinding, no aliasing (Stacked/Tree Borrows) model in the verifier",
    "x86-64, 64-bit usize; size_of::<AtomicUsize>() == 8",
    "library compiled with debug assertions off in the primary configuration (release semantics); overflow checks on",
    "the other n-1 owners of a block with symbolic count n are not materialised: no operation under contract can observe them except through the count word",
]

_hist = ("Per-operation contracts (requires/ensures injected on the real functions of the scratch copy of /repo, "
         "asserted by Kani at every call in every harness) are discharged for a symbolic pre-state: an allocation whose "
         "count word is an arbitrary n in [1, isize::MAX]. ")

PROPS = {
    "C01": dict(level="proof", explanation=_hist + "Each operation of every handle kind is shown to change the count by its declared delta, to destroy the payload and return the block exactly once iff the count reaches 0, and to leave payload/allocator untouched otherwise; the Verus history lemma (induction over Seq of operations, generated from contracts/ops.toml) lifts this to every finite history.",
                not_covered=["aliasing-model UB", "unwinding paths"]),
    "C02": dict(level="other", explanation="Ordering-discipline contracts over a ghost event trace (atomic shim build: two `use` lines of the scratch copy redirected to a forwarding wrapper). For every count value each clone entry point performs exactly one atomic RMW increment; each release performs one release-class RMW decrement, and only the call that saw 1 goes on, after an acquire-class event on the count, to destroy the payload and free the block exactly once; a non-final release touches nothing afterwards. NO interleaving and NO weak-memory outcome is explored: the C11 release-sequence lemma that lifts the discipline to all schedules is assumed, not checked.",
                not_covered=["schedules", "weak-memory load outcomes"],
                assumptions=["C11/Rust release-sequence lemma L (DESIGN §8.4): RMW-only modification + release decrements + acquire before destruction imply happens-before for all schedules — argued, not checked"]),
    "C03": dict(level="proof", explanation=_hist + "Every uniqueness gate grants iff old(count)==1, returns the very same handle/address on refusal with count, payload and allocator untouched, and every UniqueArc producer establishes count==1. The schedule half is covered only by ordering-discipline contracts on the shim build (grant preceded by an acquire-class load that saw 1); no schedule is explored.",
                not_covered=["schedules (ordering discipline only)"]),
    "C04": dict(level="proof", explanation=_hist + "Every count accessor returns exactly the count word of the right block and modifies nothing; every non-owning operation has delta 0 (also inside borrow callbacks, where the callback itself observes the count), clone-style operations +1, releases -1; the Verus history lemma gives count == #owners after every prefix."),
    "C05": dict(level="proof", explanation="Ghost-allocator contracts: every constructor's single alloc() requests exactly the closed-form repr(C) size/alignment (u128 arithmetic, symbolic slice length, overflow => refusal before allocating), the payload address is aligned, and every release path returns exactly that block with identical size and alignment. Verus proves the layout expressions (extracted verbatim from /repo/src on every run) equal the closed form for ALL sizes/alignments/lengths.",
                not_covered=["payload types outside the witness matrix (Kani side)"]),
    "C06": dict(level="proof", explanation="Constructor contracts over identity-tracked payloads: result length/elements/header equal the input in order, nothing cloned, no destructor run at return, each element destroyed exactly once when the result dies, source container storage released with its own layout. Element loops are bounded (stated per obligation); copy-based constructors are loop-free and proved for symbolic length with one symbolic index.",
                not_covered=["lengths above the stated bounds for element-loop constructors"]),
    "C07": dict(level="proof", explanation="Lying ExactSizeIterators (reported vs actual length, hints changing between calls) and allocation failure at each allocation: on normal return every slot holds a distinct issued undropped element; allocation failure reaches handle_alloc_error / Err without touching the null pointer. Panic-unwinding paths are NOT decidable with Kani (panic=abort semantics): only the state at callback entry is checked.",
                not_covered=["unwinding through library frames (DropGuard, ManuallyDrop parking)"]),
    "C08": dict(level="proof", explanation=_hist + "make_mut/make_unique/OffsetArc::make_mut: sole owner keeps block, no clone/alloc; sharer is redirected to a fresh count-1 block made by exactly one Clone, old block loses one owner, stays live with unchanged payload; writes through the returned reference are visible through the handle and not in the old block.",
                not_covered=["schedules (ordering discipline only)"]),
    "C09": dict(level="proof", explanation=_hist + "try_unwrap/try_unique/into_inner/unwrap_or_clone/TryFrom: n==1 => value handed out once without destructor/clone, block freed once with its layout; n>1 => the very same handle comes back, everything untouched (unwrap_or_clone: one Clone, one owner released).",
                not_covered=["schedules (ordering discipline only)"]),
    "C10": dict(level="proof", explanation="ThinArc representation contracts: every producer establishes recorded length == true slice length; deref/with_arc yield the fat Arc's header/elements at the same addresses; thin<->fat conversions keep block and count; into_thin with symbolic recorded length != slice length never returns; with_arc_mut write-back. Constructors with element loops bounded.",
                not_covered=["panic then release (needs unwinding)", "callback replaces then panics"]),
    "C11": dict(level="proof", explanation="Pointer round-trip contracts: as_ptr/into_raw return base + max(8, align) (independent closed form, = the address Deref yields), identical across clones/moves; from_raw* recover the same block with the same count and metadata incl. trait objects and symbolic slice lengths; heap_ptr is the allocator's pointer; handle sizes and Option niche; OffsetArc/ArcBorrow bit pattern is the value address. Verus L2 gives data offset == round_up(8, align) for all alignments."),
    "C12": dict(level="proof", explanation="Tagged-pointer contracts, bit-precise: from_first/from_second record the variant in bit 0 (free for every payload since data >= base+8 and 8-aligned), accessors report it, borrow strips it, clone/drop act on the right block with the right destructor and layout for symbolic counts; cross-variant eq is false; one word with niche."),
    "C14": dict(level="proof", explanation="Delegation contracts with instrumented payloads whose eq/ne/partial_cmp/lt/le/gt/ge/cmp/hash/fmt return symbolic results and record their arguments: each handle operation calls the payload operation exactly once on (&*a, &*b) and returns its result unchanged (licence: same allocation => eq without consulting the value). Consistency obligations on small concrete domains with all bytes symbolic (bounded slices)."),
    "C15": dict(level="proof", explanation="Uninit-lifecycle contracts with identity-tracked payloads: dropping before assume_init after writing any prefix/subset destroys no element (fresh heap bytes are nondeterministic, so destroying an unwritten slot destroys an unissued id and fails), header destroyed exactly once, block freed once; assume_init* keep block/count/bytes; deprecated write/as_mut_slice on a shared handle never return and leave the payload untouched. Slice lengths bounded."),
    "C16": dict(level="proof", explanation="Clone contracts over the whole usize range of starting counts: n <= isize::MAX => returns with count n+1; n > isize::MAX => never returns, the only failed check is the abort site (std::process::abort; explicit panic in crate::abort for no_std), no handle produced. Every clone entry point, std and no_std builds.",
                not_covered=["that the no_std double panic terminates the process (needs unwinding semantics)", "environment faults between the overflow test and the abort (e.g. a diagnostic print that panics on a failing stderr): print macros are no-ops in the verifier's model"]),
    "C17": dict(level="proof", explanation="Serde delegation contracts: serializer with symbolic outcome and instrumented payload: Arc/UniqueArc::serialize call the payload's serialize exactly once on &*self with that serializer and return its result unchanged; deserialize with symbolic outcome: Ok(v) => one allocation, count 1, *a == v; Err(e) => Err(e) unchanged and no allocation made. Both entry points (deserialize, deserialize_in_place) and both format classes (is_human_readable symbolic).",
                not_covered=["state carried between calls in private statics / thread-locals (a per-call contract starts from the visible pre-state of one call)"]),
}
