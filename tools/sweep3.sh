#!/bin/sh
here=$(cd "$(dirname "$0")/.." && pwd)
cd "$here"
for m in G03_inner_pad_to_align_removed:C05 G04_clone_limit_ge:C16 G04_clone_limit_ge:C01; do
  id=${m%%:*}; prop=${m##*:}
  python3 tools/mutate.py $id catalogue/$id.diff $prop --no-playback
done
tools/sweep.sh $(ls seeded | grep -E "^R3_")
