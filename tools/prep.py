#!/usr/bin/env python3
"""Development helper: build the injected scratch copy at a fixed path and leave it there.
usage: prep.py <dir-tag> [--shim] [--dbg]"""
import sys, os
sys.path.insert(0, os.path.dirname(os.path.abspath(__file__)))
import vlib
import shutil
def _ns(tag):
    d = os.path.join(vlib.SCRATCH_ROOT, "tvdev." + tag)
    for sub in ("src", ".cargo", "Cargo.toml", "Cargo.lock"):
        p = os.path.join(d, sub)
        if os.path.isdir(p): shutil.rmtree(p)
        elif os.path.exists(p): os.remove(p)
    os.makedirs(d, exist_ok=True)
    return d
vlib.new_scratch = _ns
tag = sys.argv[1]
d, rep = vlib.prepare_scratch(tag, shim="--shim" in sys.argv, dbg="--dbg" in sys.argv)
vlib._scratch_dirs.clear()
print(d, len(rep), "functions under contract")
