"""Verus side: (a) layout lemmas on statements extracted VERBATIM from /repo/src on every run
(DESIGN §4.6) and (b) the history-induction lemma generated from contracts/ops.toml (DESIGN §4.5).
A Verus failure alone is never an alarm (exit 2): Verus gives no counterexample; the paired Kani
obligations carry the counterexamples."""
import os, re
import vlib
from vlib import Undecided, VERIF, REPO

LAYOUT_PROPS = ("C05", "C11", "C12")
HISTORY_PROPS = ("C01", "C04")

PREAMBLE = r'''// GENERATED on every run by tools/verus_tools.py — do not edit.
use vstd::prelude::*;
use vstd::layout::*;
use core::alloc::Layout;
use core::alloc::LayoutError;

verus! {

#[verifier::external_type_specification]
#[verifier::external_body]
pub struct ExLayout(Layout);

#[verifier::external_type_specification]
#[verifier::external_body]
pub struct ExLayoutError(LayoutError);

pub uninterp spec fn lsize(l: Layout) -> nat;
pub uninterp spec fn lalign(l: Layout) -> nat;
pub uninterp spec fn val_size<T: ?Sized>(v: &T) -> nat;
pub uninterp spec fn val_align<T: ?Sized>(v: &T) -> nat;

pub open spec fn round_up(x: nat, a: nat) -> nat
    recommends a > 0
{
    ((x + a - 1) as nat / a) * a
}
pub open spec fn max_nat(a: nat, b: nat) -> nat { if a >= b { a } else { b } }
/// Rust alignments are powers of two; all this arithmetic needs is: a > 8, or a divides 8.
pub open spec fn align_ok(a: nat) -> bool { a > 8 || a == 1 || a == 2 || a == 4 || a == 8 }

pub open spec fn lvalid(l: Layout) -> bool {
    lalign(l) > 0 && round_up(lsize(l), lalign(l)) <= isize::MAX as nat
}

// ---- ASSUMED specifications of core::alloc::Layout (transcribed from the std documentation) ----
pub assume_specification[ Layout::size ](l: &Layout) -> (r: usize)
    ensures r as nat == lsize(*l);
pub assume_specification[ Layout::align ](l: &Layout) -> (r: usize)
    ensures r as nat == lalign(*l);
pub assume_specification[ Layout::pad_to_align ](l: &Layout) -> (r: Layout)
    requires lvalid(*l),
    ensures lalign(r) == lalign(*l), lsize(r) == round_up(lsize(*l), lalign(*l));
pub assume_specification[ Layout::extend ](l: &Layout, next: Layout) -> (r: Result<(Layout, usize), LayoutError>)
    requires lvalid(*l), lvalid(next),
    ensures
        ({
            let new_align = max_nat(lalign(*l), lalign(next));
            let off = round_up(lsize(*l), lalign(next));
            let new_size = off + lsize(next);
            if round_up(new_size, new_align) <= isize::MAX as nat {
                r.is_ok() && lalign(r.unwrap().0) == new_align && lsize(r.unwrap().0) == new_size && r.unwrap().1 as nat == off
            } else {
                r.is_err()
            }
        });
pub assume_specification<T>[ Layout::new::<T> ]() -> (r: Layout)
    ensures lsize(r) == size_of::<T>(), lalign(r) == align_of::<T>(), lvalid(r);
pub assume_specification<T: ?Sized>[ Layout::for_value::<T> ](t: &T) -> (r: Layout)
    ensures lsize(r) == val_size(t), lalign(r) == val_align(t), lvalid(r);
pub assume_specification<T>[ Layout::array::<T> ](n: usize) -> (r: Result<Layout, LayoutError>)
    ensures
        if round_up(n as nat * size_of::<T>(), align_of::<T>()) <= isize::MAX as nat {
            r.is_ok() && lsize(r.unwrap()) == n as nat * size_of::<T>() && lalign(r.unwrap()) == align_of::<T>()
        } else { r.is_err() };

// ---- stand-ins for the crate's own types that occur in the extracted statements ----
pub mod atomic {
    use vstd::prelude::*;
    #[verifier::external_body]
    pub struct AtomicUsize { v: usize }
}
#[verifier::external_body]
#[verifier::reject_recursive_types(T)]
pub struct ArcInner<T: ?Sized> { count: usize, data: T }
// ASSUMED: x86-64: the atomic count is 8 bytes, 8-aligned; repr(C) { count, () } likewise
pub broadcast axiom fn count_word_layout()
    ensures #[trigger] size_of::<atomic::AtomicUsize>() == 8, #[trigger] align_of::<atomic::AtomicUsize>() == 8,
            #[trigger] size_of::<ArcInner<()>>() == 8, #[trigger] align_of::<ArcInner<()>>() == 8;

pub proof fn lemma_round_up(x: nat, a: nat)
    requires a > 0
    ensures round_up(x, a) >= x, round_up(x, a) < x + a, round_up(x, a) % a == 0,
{
    let y = (x + a - 1) as nat;
    let q = y / a;
    assert(q * a <= y && y < q * a + a) by (nonlinear_arith)
        requires q == y / a, a > 0;
    vstd::arithmetic::div_mod::lemma_mod_multiples_basic(q as int, a as int);
}
pub proof fn lemma_round_up_8(a: nat)
    requires align_ok(a)
    ensures round_up(8, a) == max_nat(8, a), round_up(8, a) % a == 0,
{
    if a > 8 {
        let y = (8 + a - 1) as nat;
        assert(y / a == 1) by (nonlinear_arith) requires y == 7 + a, a > 8;
        assert(round_up(8, a) == a);
        assert(a % a == 0) by (nonlinear_arith) requires a > 0;
    } else {
        assert(round_up(8, 1) == 8) by (compute);
        assert(round_up(8, 2) == 8) by (compute);
        assert(round_up(8, 4) == 8) by (compute);
        assert(round_up(8, 8) == 8) by (compute);
    }
}

// ---- round_up is the LEAST multiple of a that is >= x; consequences ----
pub proof fn lemma_round_up_least(x: nat, a: nat, m: nat)
    requires a > 0, m % a == 0, m >= x
    ensures round_up(x, a) <= m
{
    let k = m / a;
    vstd::arithmetic::div_mod::lemma_fundamental_div_mod(m as int, a as int);
    assert(m == a * k);
    // (x + a - 1) / a <= (m + a - 1) / a == k
    vstd::arithmetic::div_mod::lemma_div_is_ordered((x + a - 1) as int, (m + a - 1) as int, a as int);
    assert(m + a - 1 == k * a + (a - 1)) by (nonlinear_arith) requires m == a * k;
    vstd::arithmetic::div_mod::lemma_fundamental_div_mod_converse((m + a - 1) as int, a as int, k as int, (a - 1) as int);
    let q = (x + a - 1) as nat / a;
    assert(q <= k);
    assert(q * a <= k * a) by (nonlinear_arith) requires q <= k, a > 0;
    assert(k * a == m) by (nonlinear_arith) requires m == a * k;
}
pub proof fn lemma_round_up_shift(x: nat, a: nat)
    requires a > 0
    ensures round_up(a + x, a) == a + round_up(x, a)
{
    // (x + a - 1 + 1 * a) / a == (x + a - 1) / a + 1
    vstd::arithmetic::div_mod::lemma_hoist_over_denominator((x + a - 1) as int, 1, a);
    let q = (x + a - 1) as nat / a;
    assert((a + x + a - 1) as nat / a == q + 1);
    assert((q + 1) * a == a + q * a) by (nonlinear_arith);
}
pub proof fn lemma_multiple_of_multiple(r: nat, big: nat, small: nat)
    requires small > 0, big > 0, big % small == 0, r % big == 0
    ensures r % small == 0
{
    let c = big / small;
    let q = r / big;
    vstd::arithmetic::div_mod::lemma_fundamental_div_mod(big as int, small as int);
    vstd::arithmetic::div_mod::lemma_fundamental_div_mod(r as int, big as int);
    assert(r == (q * c) * small) by (nonlinear_arith) requires r == big * q, big == small * c;
    vstd::arithmetic::div_mod::lemma_mod_multiples_basic((q * c) as int, small as int);
}
/// padding the value to its own alignment first (as allocate_for_header_and_slice does) does not
/// change the padded block size, when the value alignment divides the block alignment
pub proof fn lemma_inner_pad_harmless(x: nat, av: nat, big: nat)
    requires av > 0, big > 0, big % av == 0
    ensures round_up(big + round_up(x, av), big) == round_up(big + x, big)
{
    let y = round_up(x, av);
    lemma_round_up(x, av);
    lemma_round_up(x, big);
    lemma_round_up(y, big);
    lemma_round_up_shift(y, big);
    lemma_round_up_shift(x, big);
    // round_up(x,big) <= round_up(y,big): the latter is a multiple of big that is >= y >= x
    lemma_round_up_least(x, big, round_up(y, big));
    // y <= round_up(x,big): the latter is a multiple of av that is >= x
    lemma_multiple_of_multiple(round_up(x, big), big, av);
    lemma_round_up_least(x, av, round_up(x, big));
    // hence round_up(y,big) <= round_up(x,big)
    lemma_round_up_least(y, big, round_up(x, big));
}

'''

LAYOUT_TEMPLATE = r'''
// ---- L1: the block requested by try_allocate_for_layout / allocate_for_layout ------------------
// free variable of the extracted statement: value_layout.  Dropped: the alloc() call, the closure,
// the count initialisation and the debug assertion (those are Kani's obligations).
fn x_try_allocate_for_layout(value_layout: Layout) -> (layout: Layout)
    requires lvalid(value_layout), align_ok(lalign(value_layout)),
             lsize(value_layout) + 2 * lalign(value_layout) + 16 <= isize::MAX as nat,
    ensures
        lalign(layout) == max_nat(8, lalign(value_layout)),
        lsize(layout) == round_up((max_nat(8, lalign(value_layout)) + lsize(value_layout)) as nat, max_nat(8, lalign(value_layout))),
        // fits: count word, padding up to the payload's alignment, the payload
        lsize(layout) >= max_nat(8, lalign(value_layout)) + lsize(value_layout),
        // the size is a multiple of the alignment: exactly what Layout::for_value of the repr(C)
        // struct re-derives when the block is released through Box::from_raw
        lsize(layout) % lalign(layout) == 0,
        // the payload offset max(8, align) is a multiple of the payload alignment
        max_nat(8, lalign(value_layout)) % lalign(value_layout) == 0,
{
    broadcast use count_word_layout;
    proof {
        lemma_round_up_8(lalign(value_layout));
        lemma_round_up(8, 8);
        lemma_round_up((max_nat(8, lalign(value_layout)) + lsize(value_layout)) as nat, max_nat(8, lalign(value_layout)));
    }
    /* ---- verbatim from src/arc.rs fn try_allocate_for_layout ---- */
    @TRY_ALLOCATE@
    layout
}

fn x_allocate_for_layout(value_layout: Layout) -> (layout: Layout)
    requires lvalid(value_layout), align_ok(lalign(value_layout)),
             lsize(value_layout) + 2 * lalign(value_layout) + 16 <= isize::MAX as nat,
    ensures
        lalign(layout) == max_nat(8, lalign(value_layout)),
        lsize(layout) == round_up((max_nat(8, lalign(value_layout)) + lsize(value_layout)) as nat, max_nat(8, lalign(value_layout))),
{
    broadcast use count_word_layout;
    proof {
        lemma_round_up_8(lalign(value_layout));
        lemma_round_up(8, 8);
        lemma_round_up((max_nat(8, lalign(value_layout)) + lsize(value_layout)) as nat, max_nat(8, lalign(value_layout)));
    }
    /* ---- verbatim from src/arc.rs fn allocate_for_layout (layout handed to handle_alloc_error) ---- */
    @ALLOCATE@
    layout
}

// ---- L1b: the value layout computed by allocate_for_header_and_slice, for ALL H, T, len --------
pub open spec fn hs_av<H, T>() -> nat { max_nat(align_of::<H>(), align_of::<T>()) }
// repr(C) { header: H, slice: [T; len] }: slice at round_up(size H, align T), padded to the struct's alignment
pub open spec fn hs_size<H, T>(len: nat) -> nat {
    round_up((round_up(size_of::<H>(), align_of::<T>()) + len * size_of::<T>()) as nat, hs_av::<H, T>())
}
pub proof fn lemma_pad_idem(s: nat, a: nat)
    requires a > 0, s % a == 0
    ensures round_up(s, a) == s
{
    let k = s / a;
    vstd::arithmetic::div_mod::lemma_fundamental_div_mod(s as int, a as int);
    assert(s == a * k);
    assert(s + a - 1 == k * a + (a - 1)) by (nonlinear_arith) requires s == a * k;
    vstd::arithmetic::div_mod::lemma_fundamental_div_mod_converse((s + a - 1) as int, a as int, k as int, (a - 1) as int);
    assert(k * a == s) by (nonlinear_arith) requires s == a * k;
}
fn x_allocate_for_header_and_slice<H, T>(len: usize) -> (layout: Layout)
    requires
        align_of::<H>() > 0, align_of::<T>() > 0,
        size_of::<H>() + (len as nat) * size_of::<T>() + 2 * align_of::<H>() + 2 * align_of::<T>() <= isize::MAX as nat,
    ensures
        lalign(layout) == hs_av::<H, T>(),
        // stated on the RESULT: padded to its own alignment the value layout is the repr(C) size of
        // HeaderSlice<H, [T; len]> — whether or not the statement itself already pads (the inner
        // pad_to_align is redundant: lemma_block_of_value_layout below), so removing it stays green
        round_up(lsize(layout), hs_av::<H, T>()) == hs_size::<H, T>(len as nat),
        lsize(layout) >= size_of::<H>() + len as nat * size_of::<T>(),
        lsize(layout) <= hs_size::<H, T>(len as nat),
        lvalid(layout),
{
    proof {
        lemma_round_up(size_of::<H>(), align_of::<H>());
        lemma_round_up(len as nat * size_of::<T>(), align_of::<T>());
        lemma_round_up(size_of::<H>(), align_of::<T>());
        lemma_round_up((round_up(size_of::<H>(), align_of::<T>()) + len as nat * size_of::<T>()) as nat, hs_av::<H, T>());
        // padding an already padded size changes nothing
        lemma_pad_idem(hs_size::<H, T>(len as nat), hs_av::<H, T>());
    }
    /* ---- verbatim from src/arc.rs fn allocate_for_header_and_slice ---- */
    @ALLOCATE_HS@
    layout
}

// the block allocate_for_layout requests for such a value layout is the same whether the value
// layout was padded first or not
pub proof fn lemma_block_of_value_layout(vsize: nat, av: nat, padded: nat)
    requires av > 0, align_ok(av), round_up(vsize, av) == padded
    ensures round_up((max_nat(8, av) + vsize) as nat, max_nat(8, av)) == round_up((max_nat(8, av) + padded) as nat, max_nat(8, av))
{
    let big = max_nat(8, av);
    lemma_round_up_8(av);
    assert(big % av == 0) by { if av > 8 { assert(av % av == 0) by (nonlinear_arith) requires av > 0; } }
    lemma_inner_pad_harmless(vsize, av, big);
}

// ---- L2: ArcInner::offset_of_data, for every (possibly unsized) payload --------------------------
unsafe fn x_offset_of_data<T: ?Sized>(value: &T) -> (offset: usize)
    requires align_ok(val_align(value)), val_size(value) + 2 * val_align(value) + 16 <= isize::MAX as nat,
    ensures
        // == vrt::spec_off on the Kani side: where as_ptr / Deref / from_raw place the payload
        offset as nat == max_nat(8, val_align(value)),
        offset as nat % val_align(value) == 0,
        offset >= 8,   // hence (with 8-aligned blocks) bit 0 of the payload address is free: C12
{
    broadcast use count_word_layout;
    proof {
        lemma_round_up_8(val_align(value));
        lemma_round_up(8, 8);
        lemma_round_up((max_nat(8, val_align(value)) + val_size(value)) as nat, max_nat(8, val_align(value)));
    }
    /* ---- verbatim from src/arc.rs fn offset_of_data (the `let value = &*value;` re-borrow is dropped) ---- */
    @OFFSET_OF_DATA@
    offset
}

// ---- L3: the whole block for a header+slice payload fits count, header and len elements ---------
pub proof fn lemma_block_fits(sh: nat, ah: nat, st: nat, at: nat, len: nat)
    requires ah > 0, at > 0, align_ok(max_nat(ah, at)),
    ensures ({
        let av = max_nat(ah, at);
        let value = round_up((round_up(sh, at) + len * st) as nat, av);
        let total = round_up((max_nat(8, av) + value) as nat, max_nat(8, av));
        total >= 8 + sh + len * st && total % max_nat(8, av) == 0 && max_nat(8, av) % av == 0
    }),
{
    let av = max_nat(ah, at);
    lemma_round_up(sh, at);
    lemma_round_up((round_up(sh, at) + len * st) as nat, av);
    lemma_round_up((max_nat(8, av) + round_up((round_up(sh, at) + len * st) as nat, av)) as nat, max_nat(8, av));
    lemma_round_up_8(av);
}

} // verus!
fn main() {}
'''


SPECFORMS_TEMPLATE = r'''
pub open spec fn hs_av<H, T>() -> nat { max_nat(align_of::<H>(), align_of::<T>()) }
pub open spec fn hs_size<H, T>(len: nat) -> nat {
    round_up((round_up(size_of::<H>(), align_of::<T>()) + len * size_of::<T>()) as nat, hs_av::<H, T>())
}
// ---- the Kani-side closed forms, extracted VERBATIM from harness/vrt.rs ----
fn spec_off(align: usize) -> (r: usize)
    ensures r as nat == max_nat(8, align as nat)
{
    /* ---- verbatim from harness/vrt.rs fn spec_off ---- */
@VRT_SPEC_OFF@
}
fn round_up128(x: u128, a: u128) -> (r: u128)
    requires a > 0, x + a <= 0x7fff_ffff_ffff_ffff_ffff_ffff_ffff_ffffu128
    ensures r as nat == round_up(x as nat, a as nat)
{
    proof {
        let y = (x + a - 1) as nat;
        let q = y / (a as nat);
        assert(q * a <= y) by (nonlinear_arith) requires q == y / (a as nat), a > 0;
    }
    /* ---- verbatim from harness/vrt.rs fn round_up128 ---- */
@VRT_ROUND_UP128@
}
fn max3(a: usize, b: usize, c: usize) -> (r: usize)
    ensures r as nat == max_nat(max_nat(a as nat, b as nat), c as nat)
{
    /* ---- verbatim from harness/vrt.rs fn max3 ---- */
@VRT_MAX3@
}
fn spec_block(vl: Layout) -> (r: (u128, usize))
    requires lvalid(vl), align_ok(lalign(vl)), lsize(vl) + 2 * lalign(vl) + 16 <= isize::MAX as nat,
    ensures r.1 as nat == max_nat(8, lalign(vl)),
            r.0 as nat == round_up((max_nat(8, lalign(vl)) + lsize(vl)) as nat, max_nat(8, lalign(vl))),
{
    proof { lemma_round_up_8(lalign(vl)); }
    /* ---- verbatim from harness/vrt.rs fn spec_block ---- */
@VRT_SPEC_BLOCK@
}
fn spec_hs<H, T>(len: usize) -> (r: (u128, usize))
    requires align_of::<H>() > 0, align_of::<T>() > 0, align_ok(hs_av::<H, T>()),
        size_of::<H>() + (len as nat) * size_of::<T>() + 2 * align_of::<H>() + 2 * align_of::<T>() + 32 <= isize::MAX as nat,
    ensures r.1 as nat == max_nat(8, hs_av::<H, T>()),
            // == block layout of L1 applied to the value layout of L1b (inner padding is harmless)
            r.0 as nat == round_up((max_nat(8, hs_av::<H, T>()) + hs_size::<H, T>(len as nat)) as nat, max_nat(8, hs_av::<H, T>())),
{
    proof {
        let av = hs_av::<H, T>();
        let big = max_nat(8, av);
        lemma_round_up_8(av);
        lemma_round_up(size_of::<H>(), align_of::<T>());
        let x = (round_up(size_of::<H>(), align_of::<T>()) + len as nat * size_of::<T>()) as nat;
        lemma_round_up(x, av);
        lemma_round_up((big + x) as nat, big);
        assert(big % av == 0) by { if av > 8 { assert(av % av == 0) by (nonlinear_arith) requires av > 0; } }
        lemma_inner_pad_harmless(x, av, big);
        assert(len as nat * size_of::<T>() <= isize::MAX as nat) by (nonlinear_arith)
            requires size_of::<H>() + (len as nat) * size_of::<T>() + 2 * align_of::<H>() + 2 * align_of::<T>() + 32 <= isize::MAX as nat;
    }
    /* ---- verbatim from harness/vrt.rs fn spec_hs ---- */
@VRT_SPEC_HS@
}
} // verus!
fn main() {}
'''


def extract_specforms():
    """the closed forms the Kani contracts compare the real code against (harness/vrt.rs: spec_off,
    round_up128, max3, spec_block, spec_hs), bodies copied verbatim, proved equal to the Verus closed
    forms of layout_extracted.rs — so Kani-side and Verus-side specifications cannot drift apart."""
    vrt = open(os.path.join(VERIF, "harness", "vrt.rs")).read()
    text = PREAMBLE + SPECFORMS_TEMPLATE
    for name in ("spec_off", "round_up128", "max3", "spec_block", "spec_hs"):
        m = re.search(r"\n(?:pub )?fn %s\b[^{]*\{\n(.*?)\n}\n" % name, vrt, re.S)
        if not m:
            raise Undecided("verus extraction: vrt::%s not found" % name)
        text = text.replace("@VRT_%s@" % name.upper(), m.group(1))
    return text


def _fn_body(src, name, which=1):
    """text from the n-th `fn name` up to the next line starting a new fn at the same or lower indent"""
    ms = [m for m in re.finditer(r"^[ \t]*(?:pub(?:\([^)]*\))?\s+)?(?:unsafe\s+)?fn\s+%s\b" % re.escape(name), src, re.M)]
    if len(ms) < which:
        raise Undecided("verus extraction: `fn %s` #%d not found" % (name, which))
    start = ms[which - 1].start()
    nxt = re.search(r"^[ \t]*(?:///|#\[|pub(?:\([^)]*\))?\s+(?:unsafe\s+)?fn|(?:unsafe\s+)?fn|impl\b|\}\s*$\n^impl)", src[ms[which - 1].end():], re.M)
    # crude but sufficient: stop at the next `fn ` keyword
    nf = re.search(r"\bfn\s+\w+", src[ms[which - 1].end():])
    end = ms[which - 1].end() + (nf.start() if nf else len(src))
    return src[start:end]


def _stmt(body, pattern, what):
    m = re.search(pattern, body, re.S)
    if not m:
        raise Undecided("verus extraction: statement %s no longer found" % what)
    return m.group(0)


def extract_layout():
    arc = open(os.path.join(REPO, "src", "arc.rs")).read()
    arc = arc.split("#[cfg(test)]\nmod tests")[0]
    let_layout = r"let layout = [^;]*;"
    parts = {
        "@TRY_ALLOCATE@": _stmt(_fn_body(arc, "try_allocate_for_layout"), let_layout, "`let layout` in try_allocate_for_layout"),
        "@ALLOCATE@": _stmt(_fn_body(arc, "allocate_for_layout"), let_layout, "`let layout` in allocate_for_layout"),
        "@ALLOCATE_HS@": _stmt(_fn_body(arc, "allocate_for_header_and_slice"), let_layout, "`let layout` in allocate_for_header_and_slice"),
    }
    ob = _fn_body(arc, "offset_of_data")
    s1 = _stmt(ob, let_layout, "`let layout` in offset_of_data")
    s2 = _stmt(ob, r"let \(_, offset\) = [^;]*;", "`let (_, offset)` in offset_of_data")
    parts["@OFFSET_OF_DATA@"] = s1 + "\n    " + s2
    text = PREAMBLE + LAYOUT_TEMPLATE
    for k, v in parts.items():
        text = text.replace(k, v)
    dropped = ("everything of the four functions except the quoted `let layout = ...;` / `let (_, offset) = ...;` statements: "
               "the alloc() call, the mem_to_arcinner closure, ptr::write of the count, debug_assert, handle_alloc_error, "
               "the `let value = &*value;` re-borrow (all covered by the Kani obligations)")
    assumed = ["assume_specification of Layout::{size,align,new,for_value,array,extend,pad_to_align} (transcribed from std docs)",
               "size_of/align_of of AtomicUsize and ArcInner<()> == 8 (x86-64, repr(C))",
               "alignments satisfy align_ok (powers of two)"]
    return text, parts, dropped, assumed


# --------------------------------------------------------------------------------------------
def parse_ops():
    """contracts/ops.toml: lines `name = delta  # file fn [ordinal]`"""
    ops = []
    p = os.path.join(VERIF, "contracts", "ops.toml")
    for line in open(p):
        line = line.strip()
        if not line or line.startswith("#") or line.startswith("["):
            continue
        m = re.match(r'"([^"]+)"\s*=\s*(-?\d+)\s*#\s*(\S+)\s+(\w+)(?:\s+(\d+))?', line)
        if not m:
            raise Undecided("ops.toml: cannot parse line: " + line)
        ops.append(dict(name=m.group(1), delta=int(m.group(2)), file=m.group(3), fn=m.group(4), ordinal=int(m.group(5) or 1)))
    return ops


def check_ops_against_contracts(ops):
    """every operation of the table has a contract on the anchored function whose clauses carry the
    declared delta: +1 <-> `+ 1`, -1 <-> `released(`, 0 <-> an unchanged-count/allocator clause."""
    cs = vlib.all_contracts()
    problems = []
    for op in ops:
        cands = [c for c in cs.get(op["file"], []) if c["fn"] == op["fn"]]
        items = cands[op["ordinal"] - 1: op["ordinal"]]
        if not items:
            problems.append("%s: no contract on %s fn %s#%d" % (op["name"], op["file"], op["fn"], op["ordinal"]))
            continue
        text = " ".join(e for _, e in items[0]["clauses"])
        ok = {1: "+ 1" in text, -1: "released(" in text,
              0: ("g_same(" in text or "delta0(" in text or "== old(" in text)}[op["delta"]]
        if not ok:
            problems.append("%s: contract on %s fn %s does not state delta %+d" % (op["name"], op["file"], op["fn"], op["delta"]))
    return problems


HISTORY_TEMPLATE = r'''// GENERATED on every run by tools/verus_tools.py from contracts/ops.toml — do not edit.
use vstd::prelude::*;
verus! {

pub struct St { pub cnt: int, pub owners: int, pub alive: bool, pub dropped: int, pub freed: int }

// one branch per operation of contracts/ops.toml (@NOPS@ operations): the delta its contract declares
pub open spec fn delta(op: int) -> int {
@DELTA@
}

// The contract every operation carries on the real code (Kani proves code ==> this, per operation,
// for a symbolic count): requires a live block with count >= 1 (the caller holds or borrows an
// owning handle); the count moves by delta; the payload is destroyed and the block freed exactly
// when a release takes the count to 0; otherwise payload, liveness and allocator are untouched.
pub open spec fn step(pre: St, op: int, post: St) -> bool {
    0 <= op < @NOPS@
    && pre.alive && pre.cnt >= 1 && pre.owners >= 1
    && post.owners == pre.owners + delta(op)
    && post.cnt == pre.cnt + delta(op)
    && (if delta(op) == -1 && pre.cnt == 1 {
            !post.alive && post.dropped == pre.dropped + 1 && post.freed == pre.freed + 1
        } else {
            post.alive && post.dropped == pre.dropped && post.freed == pre.freed
        })
}

pub open spec fn inv(s: St) -> bool {
    if s.alive { s.cnt == s.owners && s.owners >= 1 && s.dropped == 0 && s.freed == 0 }
    else { s.owners == 0 && s.dropped == 1 && s.freed == 1 }
}

pub open spec fn init(s: St) -> bool { s.alive && s.cnt == 1 && s.owners == 1 && s.dropped == 0 && s.freed == 0 }

pub open spec fn history(ss: Seq<St>, ops: Seq<int>) -> bool {
    ss.len() == ops.len() + 1 && init(ss[0])
    && forall|i: int| 0 <= i < ops.len() ==> step(ss[i], ops[i], #[trigger] ss[i + 1])
}

pub proof fn lemma_delta_range(op: int)
    requires 0 <= op < @NOPS@
    ensures -1 <= delta(op) <= 1
{
}

// every finite history keeps the invariant (induction over the length of the history)
pub proof fn lemma_history(ss: Seq<St>, ops: Seq<int>, k: int)
    requires history(ss, ops), 0 <= k < ss.len()
    ensures inv(ss[k])
    decreases k
{
    if k > 0 {
        lemma_history(ss, ops, k - 1);
        assert(step(ss[k - 1], ops[k - 1], ss[k - 1 + 1]));
        lemma_delta_range(ops[k - 1]);
    }
}

// C04: the count reported after any prefix equals the number of owning handles.
// C01: destroyed and freed at most once; exactly once iff no owner is left; nothing follows the last release.
pub proof fn lemma_consequences(ss: Seq<St>, ops: Seq<int>, k: int)
    requires history(ss, ops), 0 <= k < ss.len()
    ensures
        ss[k].alive ==> ss[k].cnt == ss[k].owners,
        ss[k].dropped <= 1 && ss[k].freed <= 1,
        (ss[k].owners == 0) <==> (ss[k].dropped == 1),
        (ss[k].owners == 0) <==> (ss[k].freed == 1),
        !ss[k].alive ==> k == ss.len() - 1,
{
    lemma_history(ss, ops, k);
    if !ss[k].alive && k < ss.len() - 1 {
        assert(step(ss[k], ops[k], ss[k + 1]));
    }
}

} // verus!
fn main() {}
'''


def gen_history():
    ops = parse_ops()
    probs = check_ops_against_contracts(ops)
    if probs:
        raise Undecided("ops table and contract sidecars disagree: " + "; ".join(probs))
    lines = []
    for i, op in enumerate(ops):
        kw = "if" if i == 0 else "else if"
        lines.append("    %s op == %d { %d }   // %s  (%s fn %s)" % (kw, i, op["delta"], op["name"], op["file"], op["fn"]))
    lines.append("    else { 0 }")
    text = HISTORY_TEMPLATE.replace("@DELTA@", "\n".join(lines)).replace("@NOPS@", str(len(ops)))
    return text, ops


def run_for(prop, tier, logs):
    """-> list of dict(name, ok, verified, errors, wall, smt_ms, stderr, dropped, assumed)"""
    res = []
    gen = os.path.join(logs, "verus")
    os.makedirs(gen, exist_ok=True)
    if prop in LAYOUT_PROPS:
        text, parts, dropped, assumed = extract_layout()
        p = os.path.join(gen, "layout_extracted.rs")
        open(p, "w").write(text)
        r = vlib.run_verus(p)
        r.update(name="layout_extracted.rs (statements verbatim from /repo/src/arc.rs)", dropped=dropped, assumed=assumed,
                 extracted={k.strip("@"): " ".join(v.split()) for k, v in parts.items()})
        res.append(r)
        p2 = os.path.join(gen, "spec_forms.rs")
        open(p2, "w").write(extract_specforms())
        r2 = vlib.run_verus(p2)
        r2.update(name="spec_forms.rs (closed forms of harness/vrt.rs verbatim, proved equal to the layout lemmas' closed forms)",
                  dropped="nothing: the five functions are copied whole", assumed=assumed)
        res.append(r2)
    if prop in HISTORY_PROPS:
        text, ops = gen_history()
        p = os.path.join(gen, "history_lemma.rs")
        open(p, "w").write(text)
        r = vlib.run_verus(p)
        r.update(name="history_lemma.rs (generated from contracts/ops.toml, %d operations)" % len(ops),
                 dropped="nothing of /repo: this is a lemma over the contract table, not over code",
                 assumed=["Rust ownership: an operation needs a handle, a handle is an owner or borrowed from one",
                          "each operation satisfies its contract (discharged by the Kani obligations of this property)"])
        res.append(r)
    return res
