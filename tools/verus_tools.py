"""Verus side: history lemma generated from contracts/ops.toml and layout lemmas on statements
extracted verbatim from /repo/src (DESIGN §4.5/§4.6)."""
import os, re
import vlib
from vlib import Undecided, VERIF, REPO


def run_for(prop, tier, logs):
    """-> list of dict(name, ok, verified, errors, wall, smt_ms, stderr, dropped, assumed)"""
    return []
