#!/usr/bin/env python3
"""Regenerates /verif/MANIFEST.json from tools/props.py and the harness tags."""
import json, os, sys
sys.path.insert(0, os.path.dirname(os.path.abspath(__file__)))
import props as P, vlib
hs = vlib.parse_harness_tags()
claimed = sorted(p for p in P.PROPS if any(p in h["props"] for h in hs))
checks = []
for pid in claimed:
    m = P.PROPS[pid]
    nq = len([h for h in hs if pid in h["props"] and h["tier"] == "quick"])
    nt = len([h for h in hs if pid in h["props"]])
    checks.append(dict(
        property_id=pid, quick_cmd="./check %s --tier quick" % pid, thorough_cmd="./check %s --tier thorough" % pid,
        evidence_file="evidence/%s.json" % pid, replay_cmd_template="./check replay {path}", engine="kani-contracts",
        level_claimed=dict(category=m["level"], text=m["explanation"], design_ref="DESIGN.md §5 " + pid),
        level_note=("Trusted: Kani 0.68 / CBMC 6.11 (sequential atomics, no unwinding), ghost-allocator stubs, witness-type sampling of generics, "
                    "bounded element loops where stated in the evidence, Verus/Z3 + assumed Layout specs for the lemma files. "
                    "%d obligations quick / %d thorough. Not covered: %s" % (nq, nt, "; ".join(m.get("not_covered", [])) or "-")),
        technique=("ordering-discipline contracts over a ghost atomic-event trace (Kani); schedules not explored" if pid == "C02" else
                   "contract-based deductive verification: Kani function contracts injected on the real functions + per-operation obligations for symbolic counts"
                   + ("; Verus lemmas (history induction / layout arithmetic on extracted statements)" if pid in ("C01", "C04", "C05", "C11", "C12") else ""))))
na = [dict(property_id="C13", reason="statement about which client programs rustc accepts (auto-trait impl bounds, lifetime parameters, variance): no precondition, postcondition or invariant of a function expresses it, and neither Kani nor Verus reasons about trait-impl bounds or borrow-check rejections; compile-pass/compile-fail probing is a different technique family (DESIGN.md §5 C13)")]
for pid in sorted(P.PROPS):
    if pid not in claimed:
        na.append(dict(property_id=pid, reason="check under construction"))
man = dict(
    version=1, setup_cmd="true",
    hooks=dict(guard="cfg(kani)",
               enable="nothing is committed to /repo for verification: every check copies /repo's working tree to a scratch directory and there injects #[cfg_attr(kani, kani::requires/ensures)] attributes above the anchored fn lines (contracts/*.contracts), appends #[cfg(kani)] child modules with the harnesses, adds #[cfg(kani)] mod vrt, and (shim builds only) redirects the two `use core::sync::atomic...` lines to a forwarding wrapper (DESIGN.md §3.1)",
               baseline_off_cmd="cd /repo && cargo test --workspace --no-fail-fast --offline",
               source_commits=[], add_only=True),
    engines=[dict(name="kani-contracts", path="check", serves_properties=claimed,
                  kind_free_text="Kani 0.68 function contracts (assert mode) on the real code of a scratch copy, one library operation per obligation with a symbolic reference count, ghost allocator, identity-tracked payloads; Verus 0.2026.09.13 for the history lemma and layout lemmas on verbatim-extracted statements")],
    checks=checks, not_applicable=na,
    notes="Two genuine defects were repaired in /repo with fix: commits (6b890c9, 3ab9ce8); one is recorded in KNOWN_FINDINGS.txt (F3, C11). See DESIGN.md.")
json.dump(man, open(os.path.join(vlib.VERIF, "MANIFEST.json"), "w"), indent=1)
print("claimed:", claimed)
