#!/usr/bin/env python3
"""Development sweep: apply a patch to a scratch copy of /repo and run the quick checks of the given
properties against it (VERIF_REPO / VERIF_OUT), printing which obligations notice it.
usage: mutate.py <name> <patch.diff> <Cnn> [<Cnn> ...] [--no-playback]"""
import os, shutil, subprocess, sys, json
name, patch = sys.argv[1], os.path.abspath(sys.argv[2])
props = [a for a in sys.argv[3:] if not a.startswith("--")]
root = "/var/tmp/mut.%s" % name
shutil.rmtree(root, ignore_errors=True)
os.makedirs(root + "/repo")
subprocess.check_call("cp -r /repo/src /repo/Cargo.toml /repo/Cargo.lock %s/repo/" % root, shell=True)
subprocess.check_call(["git", "init", "-q"], cwd=root + "/repo")
r = subprocess.run(["git", "apply", "--whitespace=nowarn", patch], cwd=root + "/repo", capture_output=True, text=True)
if r.returncode:
    r = subprocess.run(["patch", "-p1", "-i", patch], cwd=root + "/repo", capture_output=True, text=True)
    if r.returncode:
        print("PATCH DOES NOT APPLY", r.stdout, r.stderr); sys.exit(3)
env = dict(os.environ, VERIF_REPO=root + "/repo", VERIF_OUT=root + "/out")
if "--no-playback" in sys.argv:
    env["VERIF_PLAYBACK"] = "0"
res = {}
for p in props:
    pr = subprocess.run([os.path.join(os.path.dirname(os.path.dirname(os.path.abspath(__file__))), "check"), p], env=env, capture_output=True, text=True)
    res[p] = pr.returncode
    lines = [l for l in pr.stdout.split("\n") if l.startswith(("VIOLATION", "  failed obligation", "UNDECIDED", "KNOWN", p))]
    print("== %s %s rc=%d" % (name, p, pr.returncode))
    print("\n".join(l[:400] for l in lines))
print("SUMMARY", name, json.dumps(res))
shutil.rmtree(root + "/repo", ignore_errors=True)
