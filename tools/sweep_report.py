#!/usr/bin/env python3
"""Parse sweep logs (tools/sweep.sh output) -> markdown table + updates seeded/*/meta.json detected_by.
usage: sweep_report.py <log> [<log> ...] [--update]"""
import json, os, re, sys
VERIF = os.path.dirname(os.path.dirname(os.path.abspath(__file__)))
res = {}
for lp in [a for a in sys.argv[1:] if not a.startswith("--")]:
    cur = None
    for line in open(lp, errors="replace"):
        m = re.match(r"== (\S+) (C\d+) rc=(\d+)", line)
        if m:
            cur = res.setdefault(m.group(1), dict(prop=m.group(2), rc=int(m.group(3)), obligations=[], undecided=[]))
            cur["rc"] = int(m.group(3)); cur["obligations"] = []; cur["undecided"] = []
            continue
        if cur is None:
            continue
        m = re.match(r"\s+failed obligation: \S+::(c\d\d_\w+) — (.*)", line)
        if m:
            cur["obligations"].append(m.group(1))
        m = re.match(r"UNDECIDED (?:property=\S+: )?(.*)", line)
        if m:
            cur["undecided"].append(m.group(1)[:160])
rows = []
for mid in sorted(res):
    r = res[mid]
    verdict = {0: "MISSED (check stays green)", 1: "caught", 2: "undecided"}.get(r["rc"], "?")
    obl = ", ".join(sorted(set(r["obligations"]))[:6]) + (" …(+%d)" % (len(set(r["obligations"])) - 6) if len(set(r["obligations"])) > 6 else "")
    rows.append("| %s | %s | %s | %s |" % (mid, r["prop"], verdict, obl or "; ".join(r["undecided"])[:200]))
    if "--update" in sys.argv:
        mp = os.path.join(VERIF, "seeded", mid, "meta.json")
        if os.path.exists(mp):
            meta = json.load(open(mp))
            meta["detected_by"] = dict(check="./check %s --tier quick" % r["prop"], result=verdict, failed_obligations=sorted(set(r["obligations"])),
                                       undecided=r["undecided"])
            json.dump(meta, open(mp, "w"), indent=1)
print("| change | property | quick check | failed obligations |\n|---|---|---|---|")
print("\n".join(rows))
print("\ncaught %d, missed %d, undecided %d of %d" % (sum(1 for r in res.values() if r["rc"] == 1), sum(1 for r in res.values() if r["rc"] == 0),
                                                    sum(1 for r in res.values() if r["rc"] == 2), len(res)))
