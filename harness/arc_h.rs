// child module of src/arc.rs (sees drop_inner, drop_slow, must_be_unique, try_allocate_for_layout,
// offset_of_data). One library operation per harness; the pre-state is an allocation whose count
// word is an arbitrary n in [1, isize::MAX] (DESIGN §3.3/§4.4).
#![allow(dead_code, unused_imports, unused_unsafe, static_mut_refs, unused_variables, unused_mut, deprecated)]
use crate::arc::{Arc, ArcInner};
use crate::header::HeaderSlice;
use crate::unique_arc::UniqueArc;
use crate::vrt;
use crate::vrt::{any_count, base, cnt, cw, data, mk, rd, set_cnt, Probe, Tr, Tr16, Tr64, Tr8, TrIter, Zd, S1, S16a16, S33a32,
                 S64a64, S9a8, S4a4, S3, S2a2, Z};
use crate::{ArcBorrow, OffsetArc};
use core::alloc::Layout;
use core::mem::MaybeUninit;

pub(crate) fn mk_dyn<T: Probe + 'static>(v: T) -> Arc<dyn Probe> {
    let p = Arc::into_raw(Arc::new(v));
    unsafe { Arc::from_raw(p as *const dyn Probe) }
}
/// Arc<[u32]> of symbolic length <= 6 with symbolic contents (copy-based constructor: no loop)
pub(crate) fn mk_slice_u32() -> Arc<[u32]> {
    let buf: [u32; 6] = kani::any();
    let len: usize = kani::any();
    kani::assume(len <= 6);
    Arc::from(&buf[..len])
}

// ------------------------------------------------------------------------------------------
// C04 accessor agreement
// ------------------------------------------------------------------------------------------

// @h props=C04,C03 fuc=Arc::count,Arc::strong_count,Arc::is_unique
gproof! { fn c04_arc_count_accessors() {
    let n = any_count();
    let a = mk(S9a8::any(), n);
    assert!(Arc::count(&a) == n);
    assert!(Arc::strong_count(&a) == n);
    assert!(a.is_unique() == (n == 1));
    assert!(cnt(&a) == n);
    core::mem::forget(a);
} }

// @h props=C04 fuc=Arc::count,Arc::strong_count,Arc::is_unique
gproof! { fn c04_arc_count_accessors_slice() {
    let n = any_count();
    let a = mk_slice_u32();
    set_cnt(&a, n);
    assert!(Arc::count(&a) == n && Arc::strong_count(&a) == n && a.is_unique() == (n == 1));
    core::mem::forget(a);
} }

// @h props=C04 fuc=Arc::count,Arc::strong_count,Arc::is_unique
gproof! { fn c04_arc_count_accessors_dyn() {
    let n = any_count();
    let a = mk_dyn(S9a8::any());
    set_cnt(&a, n);
    assert!(Arc::count(&a) == n && Arc::strong_count(&a) == n && a.is_unique() == (n == 1));
    core::mem::forget(a);
} }

// ------------------------------------------------------------------------------------------
// C01/C04: clone = +1 on the same block, nothing else changes
// ------------------------------------------------------------------------------------------
macro_rules! h_arc_clone {
    ($name:ident, $T:ty, $mk:expr) => {
        gproof! { fn $name() {
            let n = any_count();
            let a: Arc<$T> = $mk;
            set_cnt(&a, n);
            let (b0, d0, s0, c0) = (base(&a), data(&a), vrt::vsize(&a), cw(&a));
            let (p0, a0) = (vrt::p_snap(), vrt::g_allocs());
            let b = a.clone();
            assert!(cnt(&a) == n + 1 && Arc::count(&b) == n + 1);
            assert!(base(&b) == b0 && base(&a) == b0 && vrt::vsize(&b) == s0);
            assert!(vrt::addr(&*b as *const $T) == d0 && vrt::addr(&*a as *const $T) == d0);
            assert!(vrt::p_same(p0) && vrt::ga(a0) && vrt::gd(0));
            core::mem::forget(a);
            core::mem::forget(b);
        } }
    };
}
// @h props=C01,C04,C16,C03,C08,C09 fuc=Arc::clone
h_arc_clone!(c01_arc_clone__tr8, Tr8, Arc::new(Tr8::new()));
// @h props=C01,C04,C16 fuc=Arc::clone
h_arc_clone!(c01_arc_clone__zst, Z, Arc::new(Z));
// @h props=C01,C04,C16 fuc=Arc::clone
h_arc_clone!(c01_arc_clone__a64, S64a64, Arc::new(S64a64::any()));
// @h props=C01,C04,C16 fuc=Arc::clone
h_arc_clone!(c01_arc_clone__slice, [u32], mk_slice_u32());
// @h props=C01,C04,C16 fuc=Arc::clone
h_arc_clone!(c01_arc_clone__dyn, dyn Probe, mk_dyn(Tr8::new()));
// @h props=C01,C04,C16 fuc=Arc::clone
h_arc_clone!(c01_arc_clone__str, str, Arc::from("ab"));

// @h props=C01,C04 fuc=Arc::clone
gproof! { fn c01_arc_clone_payload_intact() {
    let n = any_count();
    let a = mk(Tr8::new(), n);
    let (id, v) = (a.id, a.v);
    let b = a.clone();
    assert!(b.id == id && b.v == v && a.id == id && a.v == v);
    assert!(vrt::drops() == 0 && vrt::clones() == 0);
    core::mem::forget(a);
    core::mem::forget(b);
} }

// ------------------------------------------------------------------------------------------
// C01/C04/C05: release = -1; destroys payload and returns the block exactly once iff n == 1
// ------------------------------------------------------------------------------------------
macro_rules! h_arc_drop {
    ($(#[$m:meta])* $name:ident, $T:ty, $mk:expr, $ndrops:expr) => {
        gproof! { $(#[$m])* fn $name() {
            let n = any_count();
            let a: Arc<$T> = $mk;
            set_cnt(&a, n);
            let (b0, c0) = (base(&a), cw(&a));
            let (d0, a0) = (vrt::drops(), vrt::g_allocs());
            let want = vrt::g_req(b0);
            let lay = vrt::inner_layout(&a);
            assert!(!vrt::g_on() || want == lay);
            drop(a);
            if n == 1 {
                assert!(vrt::drops() == d0 + $ndrops);
                assert!(vrt::gd(1) && !vrt::g_live(b0));
            } else {
                assert!(vrt::drops() == d0);
                assert!(vrt::gd(0) && vrt::glive_at(b0) && rd(c0) == n - 1);
            }
            assert!(vrt::ga(a0));
            kani::cover!(n == 1, "last owner");
            kani::cover!(n > 1, "not last owner");
        } }
    };
}
// @h props=C01,C04,C05 fuc=Arc::drop,Arc::drop_inner,Arc::drop_slow
h_arc_drop!(c01_arc_drop__tr8, Tr8, Arc::new(Tr8::new()), 1);
// @h props=C01,C04,C05 fuc=Arc::drop,Arc::drop_inner,Arc::drop_slow
h_arc_drop!(c01_arc_drop__tr64, Tr64, Arc::new(Tr64::new()), 1);
// @h props=C01,C04,C05 fuc=Arc::drop,Arc::drop_inner,Arc::drop_slow
h_arc_drop!(c01_arc_drop__tr1, Tr, Arc::new(Tr::new()), 1);
// @h props=C01,C05 fuc=Arc::drop,Arc::drop_inner,Arc::drop_slow
h_arc_drop!(c01_arc_drop__zst, Z, Arc::new(Z), 0);
// @h props=C01,C05 fuc=Arc::drop,Arc::drop_inner,Arc::drop_slow
h_arc_drop!(c01_arc_drop__a32, S33a32, Arc::new(S33a32::any()), 0);
// @h props=C01,C04,C05 fuc=Arc::drop,Arc::drop_inner,Arc::drop_slow
h_arc_drop!(c01_arc_drop__slice, [u32], mk_slice_u32(), 0);
// @h props=C01,C04,C05 fuc=Arc::drop,Arc::drop_inner,Arc::drop_slow
h_arc_drop!(c01_arc_drop__dyn, dyn Probe, mk_dyn(Tr8::new()), 1);
// @h props=C01,C05 fuc=Arc::drop,Arc::drop_inner,Arc::drop_slow
h_arc_drop!(c01_arc_drop__dyn_s9a8, dyn Probe, mk_dyn(S9a8::any()), 0);
// @h props=C01,C05 fuc=Arc::drop,Arc::drop_inner,Arc::drop_slow
h_arc_drop!(c01_arc_drop__str, str, Arc::from("abc"), 0);

// @h props=C01,C04 fuc=Arc::drop
gproof! { fn c01_arc_drop_payload_intact_when_shared() {
    let n = any_count();
    kani::assume(n > 1);
    let a = mk(Tr8::new(), n);
    let (id, v, b0, c0) = (a.id, a.v, base(&a), cw(&a));
    let pp0 = &*a as *const Tr8;
    drop(a);
    assert!(unsafe { (*pp0).id == id && (*pp0).v == v });
    assert!(!vrt::dropped(id));
} }

// @h props=C01,C05 fuc=Arc::drop bounded=len<=2
gproof! { #[kani::unwind(4)] fn c01_arc_drop__hs_tr_elems() {
    let n = any_count();
    let len: usize = kani::any();
    kani::assume(len <= 2);
    let a = Arc::from_header_and_iter(Tr8::new(), TrIter::new(len));
    set_cnt(&a, n);
    let (b0, c0) = (base(&a), cw(&a));
    drop(a);
    if n == 1 {
        assert!(vrt::drops() == len + 1 && vrt::gd(1) && vrt::glive(0));
    } else {
        assert!(vrt::drops() == 0 && vrt::gd(0) && rd(c0) == n - 1);
    }
} }

// ------------------------------------------------------------------------------------------
// C01/C04/C11: conversions keep the block, the count and the payload (delta 0)
// ------------------------------------------------------------------------------------------
macro_rules! h_arc_raw_roundtrip {
    ($name:ident, $T:ty, $mk:expr) => {
        gproof! { fn $name() {
            let n = any_count();
            let a: Arc<$T> = $mk;
            set_cnt(&a, n);
            let (b0, d0, s0, c0) = (base(&a), data(&a), vrt::vsize(&a), cw(&a));
            let (p0, a0) = (vrt::p_snap(), vrt::g_allocs());
            let dp = vrt::addr(&*a as *const $T);
            let ap = Arc::as_ptr(&a);
            let hp = a.heap_ptr() as usize;
            assert!(vrt::addr(ap) == dp && dp == d0 && hp == b0 && vrt::glive_at(hp));
            let raw = Arc::into_raw(a);
            // the raw pointer is an owner: the count is untouched and the block stays live
            assert!(vrt::addr(raw) == dp && vrt::vsize_of(raw) == s0);
            assert!(rd(c0) == n && vrt::glive_at(b0) && vrt::p_same(p0));
            let b: Arc<$T> = unsafe { Arc::from_raw(raw) };
            assert!(base(&b) == b0 && cnt(&b) == n && vrt::vsize(&b) == s0);
            assert!(vrt::addr(&*b as *const $T) == dp);
            assert!(vrt::p_same(p0) && vrt::ga(a0) && vrt::gd(0));
            core::mem::forget(b);
        } }
    };
}
// @h props=C01,C04,C11 fuc=Arc::into_raw,Arc::from_raw,Arc::as_ptr,Arc::heap_ptr,Arc::deref
h_arc_raw_roundtrip!(c11_arc_raw_roundtrip__tr8, Tr8, Arc::new(Tr8::new()));
// @h props=C01,C11 fuc=Arc::into_raw,Arc::from_raw,Arc::as_ptr,Arc::heap_ptr,Arc::deref
h_arc_raw_roundtrip!(c11_arc_raw_roundtrip__zst, Z, Arc::new(Z));
// @h props=C01,C11 fuc=Arc::into_raw,Arc::from_raw,Arc::as_ptr,Arc::heap_ptr,Arc::deref
h_arc_raw_roundtrip!(c11_arc_raw_roundtrip__s1, S1, Arc::new(S1::any()));
// @h props=C01,C11 fuc=Arc::into_raw,Arc::from_raw,Arc::as_ptr,Arc::heap_ptr,Arc::deref
h_arc_raw_roundtrip!(c11_arc_raw_roundtrip__a16, S16a16, Arc::new(S16a16::any()));
// @h props=C01,C11 fuc=Arc::into_raw,Arc::from_raw,Arc::as_ptr,Arc::heap_ptr,Arc::deref
h_arc_raw_roundtrip!(c11_arc_raw_roundtrip__a64, S64a64, Arc::new(S64a64::any()));
// @h props=C01,C11 fuc=Arc::into_raw,Arc::from_raw,Arc::as_ptr,Arc::heap_ptr,Arc::deref
h_arc_raw_roundtrip!(c11_arc_raw_roundtrip__slice, [u32], mk_slice_u32());
// @h props=C01,C11 fuc=Arc::into_raw,Arc::from_raw,Arc::as_ptr,Arc::heap_ptr,Arc::deref
h_arc_raw_roundtrip!(c11_arc_raw_roundtrip__dyn, dyn Probe, mk_dyn(S9a8::any()));
// @h props=C01,C11 fuc=Arc::into_raw,Arc::from_raw,Arc::as_ptr,Arc::heap_ptr,Arc::deref
h_arc_raw_roundtrip!(c11_arc_raw_roundtrip__str, str, Arc::from("abcd"));

// @h props=C01,C11 fuc=Arc::from_raw_slice,Arc::into_raw
gproof! { fn c11_arc_from_raw_slice() {
    let n = any_count();
    let a = mk_slice_u32();
    set_cnt(&a, n);
    let (b0, len, c0) = (base(&a), a.len(), cw(&a));
    let i: usize = kani::any();
    kani::assume(i < 6);
    let want = if i < len { Some(a[i]) } else { None };
    let raw = Arc::into_raw(a);
    let b = unsafe { Arc::from_raw_slice(raw) };
    assert!(base(&b) == b0 && cnt(&b) == n && b.len() == len);
    if i < len { assert!(Some(b[i]) == want); }
    assert!(vrt::ga(1) && vrt::gd(0));
    core::mem::forget(b);
} }

// @h props=C11,C01,C05 fuc=Arc::from_raw_slice,Arc::into_raw note="OVER-ALIGNED elements (the slice starts 32 bytes into the block, not 8), every length 0..=2"
gproof! { fn c11_arc_from_raw_slice__a32() {
    let buf = [S33a32::any(), S33a32::any()];
    let len: usize = kani::any();
    kani::assume(len <= 2);
    let a: Arc<[S33a32]> = Arc::from(&buf[..len]);
    let (b0, c0) = (base(&a), cw(&a));
    let raw = Arc::into_raw(a);
    assert!(raw as *const u8 as usize == b0 + 32);
    let b = unsafe { Arc::from_raw_slice(raw) };
    assert!(base(&b) == b0 && cnt(&b) == 1 && b.len() == len && vrt::ga(1) && vrt::gd(0));
    drop(b);
    assert!(vrt::glive(0) && vrt::g_ok());
} }

// @h props=C01,C11 fuc=Arc::from_raw,Arc::into_raw note="sized -> trait object pointer cast"
gproof! { fn c11_arc_from_raw_cast_to_dyn() {
    let n = any_count();
    let a = mk(Tr8::new(), n);
    let (b0, id, v, c0) = (base(&a), a.id, a.v, cw(&a));
    let pp0 = &*a as *const Tr8;
    let raw = Arc::into_raw(a) as *const dyn Probe;
    let d: Arc<dyn Probe> = unsafe { Arc::from_raw(raw) };
    assert!(base(&d) == b0 && cnt(&d) == n && d.probe() == v);
    assert!(vrt::vsize(&d) == core::mem::size_of::<Tr8>());
    assert!(vrt::drops() == 0 && vrt::ga(1) && vrt::gd(0));
    core::mem::forget(d);
} }

#[repr(transparent)]
pub(crate) struct S1w(pub S1);
impl Probe for S1w {
    fn probe(&self) -> u8 {
        (self.0).0[0]
    }
}
// @h props=C11,C14 fuc=Arc::ptr_eq,Arc::from_raw note="two trait-object handles recovered from ONE allocation through different casts (different vtables): still the same allocation; a handle to another block of the same type is not"
gproof! { fn c11_ptr_eq_dyn_same_block_two_vtables() {
    let n = any_count();
    kani::assume(n > 1);
    let a = mk(S1::any(), n);
    let b0 = base(&a);
    let raw = Arc::into_raw(a);
    let d1: Arc<dyn Probe> = unsafe { Arc::from_raw(raw as *const dyn Probe) };
    let d2: Arc<dyn Probe> = unsafe { Arc::from_raw(raw as *const S1w as *const dyn Probe) };
    let other = mk_dyn(S1::any());
    assert!(base(&d1) == b0 && base(&d2) == b0 && cnt(&d2) == n);
    assert!(Arc::ptr_eq(&d1, &d2) && Arc::ptr_eq(&d2, &d1) && !Arc::ptr_eq(&d1, &other) && !Arc::ptr_eq(&other, &d2));
    core::mem::forget(d1);
    core::mem::forget(d2);
    core::mem::forget(other);
} }

// @h props=C01,C04,C11 fuc=Arc::into_raw_offset,Arc::from_raw_offset
gproof! { fn c11_arc_offset_roundtrip__tr16() {
    let n = any_count();
    let a = mk(Tr16::new(), n);
    let (b0, d0, id, c0) = (base(&a), data(&a), a.id, cw(&a));
    let o = Arc::into_raw_offset(a);
    // an OffsetArc's bit pattern is the value's address
    assert!(unsafe { core::mem::transmute_copy::<OffsetArc<Tr16>, usize>(&o) } == d0);
    assert!(rd(c0) == n && OffsetArc::strong_count(&o) == n);
    assert!(vrt::addr(&*o as *const Tr16) == d0 && o.id == id);
    let b = Arc::from_raw_offset(o);
    assert!(base(&b) == b0 && cnt(&b) == n && b.id == id);
    assert!(vrt::drops() == 0 && vrt::ga(1) && vrt::gd(0));
    core::mem::forget(b);
} }

macro_rules! h_offset_roundtrip_small {
    ($name:ident, $T:ty, $v:expr) => {
        gproof! { fn $name() {
            let n = any_count();
            let a = mk($v, n);
            let (b0, d0, c0) = (base(&a), data(&a), cw(&a));
            let o = Arc::into_raw_offset(a);
            assert!(unsafe { core::mem::transmute_copy::<OffsetArc<$T>, usize>(&o) } == d0);
            let b = Arc::from_raw_offset(o);
            assert!(base(&b) == b0 && cnt(&b) == n && rd(c0) == n && vrt::ga(1) && vrt::gd(0));
            core::mem::forget(b);
        } }
    };
}
// @h props=C11,C01,C04 fuc=Arc::into_raw_offset,Arc::from_raw_offset note="payload smaller than a word (tail padding in ArcInner)"
h_offset_roundtrip_small!(c11_arc_offset_roundtrip__s1, S1, S1::any());
// @h props=C11,C01 fuc=Arc::into_raw_offset,Arc::from_raw_offset note="3-byte payload"
h_offset_roundtrip_small!(c11_arc_offset_roundtrip__s3, vrt::S3, vrt::S3::any());
// @h props=C11,C01 fuc=Arc::into_raw_offset,Arc::from_raw_offset note="4-byte, 4-aligned payload"
h_offset_roundtrip_small!(c11_arc_offset_roundtrip__s4a4, S4a4, S4a4::any());

// @h props=C01,C04,C11 fuc=Arc::into_raw_offset,Arc::from_raw_offset
gproof! { fn c11_arc_offset_roundtrip__zst() {
    let n = any_count();
    let a = mk(Z, n);
    let (b0, d0, c0) = (base(&a), data(&a), cw(&a));
    let o = Arc::into_raw_offset(a);
    assert!(unsafe { core::mem::transmute_copy::<OffsetArc<Z>, usize>(&o) } == d0);
    let b = Arc::from_raw_offset(o);
    assert!(base(&b) == b0 && cnt(&b) == n && vrt::ga(1) && vrt::gd(0));
    core::mem::forget(b);
} }

// @h props=C01,C04,C11 fuc=Arc::with_raw_offset_arc,OffsetArc::clone,OffsetArc::drop,OffsetArc::strong_count
gproof! { fn c04_arc_with_raw_offset_arc_callback() {
    let n = any_count();
        let a = mk(Tr8::new(), n);
    let (b0, d0, id, c0) = (base(&a), data(&a), a.id, cw(&a));
    let keep: bool = kani::any();
    let seen = a.with_raw_offset_arc(|o| {
        // inside the borrow the count is what it was before the call
        let inside = OffsetArc::strong_count(o);
        assert!(vrt::addr(&**o as *const Tr8) == d0);
        let c = o.clone();
        assert!(OffsetArc::strong_count(o) == inside + 1);
        if keep { core::mem::forget(c); } else { drop(c); }
        inside
    });
    assert!(seen == n);
    assert!(cnt(&a) == if keep { n + 1 } else { n });
    assert!(base(&a) == b0 && a.id == id && vrt::drops() == 0 && vrt::ga(1) && vrt::gd(0));
    core::mem::forget(a);
} }

// @h props=C04,C11 fuc=Arc::borrow_arc,ArcBorrow::strong_count,ArcBorrow::get
gproof! { fn c04_arc_borrow_arc() {
    let n = any_count();
    let a = mk(S16a16::any(), n);
    let d0 = data(&a);
    let b = a.borrow_arc();
    assert!(unsafe { core::mem::transmute_copy::<ArcBorrow<S16a16>, usize>(&b) } == d0);
    assert!(ArcBorrow::strong_count(&b) == n && cnt(&a) == n);
    assert!(vrt::addr(b.get() as *const S16a16) == d0 && vrt::addr(&*b as *const S16a16) == d0);
    let b2 = b; // moving / copying a borrow is not an owner
    assert!(cnt(&a) == n && ArcBorrow::ptr_eq(&b, &b2));
    core::mem::forget(a);
} }

// @h props=C04,C14 fuc=Arc::ptr_eq
gproof! { fn c04_arc_ptr_eq_and_move() {
    let n = any_count();
        let a = mk(S9a8::any(), n);
    let b = a.clone();
    let c = Arc::new(S9a8::any());
    assert!(Arc::ptr_eq(&a, &b) && !Arc::ptr_eq(&a, &c));
    let moved = a; // moving a handle neither changes the count nor the addresses
    assert!(cnt(&moved) == n + 1 && Arc::as_ptr(&moved) == Arc::as_ptr(&b));
    core::mem::forget(moved);
    core::mem::forget(b);
    core::mem::forget(c);
} }

// ------------------------------------------------------------------------------------------
// C03: uniqueness gates grant iff n == 1 and give the same handle back on refusal
// ------------------------------------------------------------------------------------------

// @h props=C03 fuc=Arc::get_mut,Arc::is_unique
gproof! { fn c03_arc_get_mut__tr8() {
    let n = any_count();
    let mut a = mk(Tr8::new(), n);
    let (b0, d0, id, v) = (base(&a), data(&a), a.id, a.v);
    let w: u8 = kani::any();
    match Arc::get_mut(&mut a) {
        Some(r) => { assert!(n == 1 && vrt::addr(r as *const Tr8) == d0); r.v = w; }
        None => { assert!(n != 1); }
    }
    assert!(base(&a) == b0 && cnt(&a) == n && a.id == id);
    assert!(a.v == if n == 1 { w } else { v });
    assert!(vrt::drops() == 0 && vrt::clones() == 0 && vrt::ga(1) && vrt::gd(0));
    kani::cover!(n == 1, "granted");
    kani::cover!(n > 1, "refused");
    core::mem::forget(a);
} }

// @h props=C03 fuc=Arc::get_mut
gproof! { fn c03_arc_get_mut__slice() {
    let n = any_count();
    let mut a = mk_slice_u32();
    set_cnt(&a, n);
    let (b0, len, c0) = (base(&a), a.len(), cw(&a));
    let r = Arc::get_mut(&mut a).map(|r| (r.as_ptr() as usize, r.len()));
    assert!(r.is_some() == (n == 1));
    if let Some((p, l)) = r { assert!(p == data(&a) && l == len); }
    assert!(base(&a) == b0 && cnt(&a) == n);
    core::mem::forget(a);
} }

// @h props=C03 fuc=Arc::get_unique,Arc::try_as_unique,UniqueArc::from_arc_ref
gproof! { fn c03_arc_get_unique__tr8() {
    let n = any_count();
    let mut a = mk(Tr8::new(), n);
    let (b0, id, c0) = (base(&a), a.id, cw(&a));
    let pp0 = &*a as *const Tr8;
    let pa = &a as *const Arc<Tr8> as usize;
    let w: u8 = kani::any();
    match Arc::get_unique(&mut a) {
        Some(u) => { assert!(n == 1 && u as *const UniqueArc<Tr8> as usize == pa); u.v = w; }
        None => { assert!(n != 1); }
    }
    assert!(base(&a) == b0 && cnt(&a) == n && a.id == id);
    assert!(n != 1 || a.v == w);
    assert!(vrt::drops() == 0 && vrt::ga(1) && vrt::gd(0));
    core::mem::forget(a);
} }

// @h props=C03,C09 fuc=Arc::try_unique,UniqueArc::from_arc
gproof! { fn c03_arc_try_unique__tr8() {
    let n = any_count();
    let a = mk(Tr8::new(), n);
    let (b0, id, c0) = (base(&a), a.id, cw(&a));
    let pp0 = &*a as *const Tr8;
    match Arc::try_unique(a) {
        Ok(u) => { assert!(n == 1 && u.id == id); let s = u.shareable(); assert!(base(&s) == b0 && cnt(&s) == 1); core::mem::forget(s); }
        Err(a2) => { assert!(n != 1 && base(&a2) == b0 && cnt(&a2) == n && a2.id == id); core::mem::forget(a2); }
    }
    assert!(vrt::drops() == 0 && vrt::clones() == 0 && vrt::ga(1) && vrt::gd(0));
    kani::cover!(n == 1, "granted");
    kani::cover!(n > 1, "refused");
} }

// @h props=C03,C09 fuc=Arc::try_unique
gproof! { fn c03_arc_try_unique__dyn() {
    let n = any_count();
    let a = mk_dyn(Tr8::new());
    set_cnt(&a, n);
    let (b0, c0) = (base(&a), cw(&a));
    match Arc::try_unique(a) {
        Ok(u) => { assert!(n == 1); core::mem::forget(u); }
        Err(a2) => { assert!(n != 1 && base(&a2) == b0 && cnt(&a2) == n); core::mem::forget(a2); }
    }
    assert!(vrt::drops() == 0 && vrt::gd(0));
} }

// @h props=C09,C03 fuc=UniqueArc::try_from,Arc::try_unique,Arc::get_mut note="payload of zero size at run time (empty slice) is no excuse: a shared handle is refused by every gate"
gproof! { fn c09_gates_refuse_shared_empty_slice() {
    use core::convert::TryFrom;
    let n = any_count();
    kani::assume(n > 1);
    let buf: [u32; 2] = kani::any();
    let mut a: Arc<[u32]> = Arc::from(&buf[..0]);
    set_cnt(&a, n);
    let b0 = base(&a);
    assert!(Arc::get_mut(&mut a).is_none() && !a.is_unique());
    match UniqueArc::try_from(a) {
        Ok(u) => { assert!(false, "sole ownership granted although other owners exist"); core::mem::forget(u); }
        Err(a2) => { assert!(base(&a2) == b0 && cnt(&a2) == n && a2.len() == 0); core::mem::forget(a2); }
    }
} }

// @h props=C03,C09 fuc=UniqueArc::try_from,Arc::try_unique
gproof! { fn c03_unique_try_from_arc() {
    use core::convert::TryFrom;
    let n = any_count();
    let a = mk(Tr8::new(), n);
    let (b0, id, c0) = (base(&a), a.id, cw(&a));
    let pp0 = &*a as *const Tr8;
    match UniqueArc::try_from(a) {
        Ok(u) => { assert!(n == 1 && u.id == id); core::mem::forget(u); }
        Err(a2) => { assert!(n != 1 && base(&a2) == b0 && cnt(&a2) == n && a2.id == id); core::mem::forget(a2); }
    }
    assert!(vrt::drops() == 0 && vrt::clones() == 0 && vrt::gd(0));
} }

// @h props=C03,C15 fuc=Arc::write,must_be_unique,UniqueArc::write
gproof! { fn c15_arc_deprecated_write_unique() {
    let mut a: Arc<MaybeUninit<Tr8>> = Arc::new_uninit();
    let d0 = data(&a);
    let t = Tr8::new();
    let id = t.id;
    let r = a.write(t);
    assert!(r as *const Tr8 as usize == d0 && r.id == id);
    assert!(vrt::drops() == 0 && cnt(&a) == 1);
    let b = unsafe { a.assume_init() };
    assert!(b.id == id);
    drop(b);
    assert!(vrt::drops() == 1 && vrt::dropped(id) && vrt::gd(1));
} }

// @h props=C03,C15 kind=panic site="must be unique|must_be_unique" fuc=Arc::write,must_be_unique
gpanic! { fn c15_arc_deprecated_write_shared_refused() {
    let n = any_count();
    kani::assume(n > 1);
    let mut a: Arc<MaybeUninit<S9a8>> = Arc::new_uninit();
    set_cnt(&a, n);
    let _ = a.write(S9a8::any());
} }

// @h props=C03,C15 kind=panic site="must be unique|must_be_unique" fuc=Arc::as_mut_slice,must_be_unique
gpanic! { fn c15_arc_deprecated_as_mut_slice_shared_refused() {
    let n = any_count();
    kani::assume(n > 1);
    let mut a: Arc<[MaybeUninit<u32>]> = Arc::new_uninit_slice(3);
    set_cnt(&a, n);
    let s = a.as_mut_slice();
    s[0] = MaybeUninit::new(1);
} }

// @h props=C03,C15 fuc=Arc::as_mut_slice,must_be_unique
gproof! { fn c15_arc_deprecated_as_mut_slice_unique() {
    let len: usize = kani::any();
    kani::assume(len <= 8);
    let mut a: Arc<[MaybeUninit<u32>]> = Arc::new_uninit_slice(len);
    let d0 = data(&a);
    let s = a.as_mut_slice();
    assert!(s.as_ptr() as usize == d0 && s.len() == len);
    core::mem::forget(a);
} }

// ------------------------------------------------------------------------------------------
// C08: copy-on-write
// ------------------------------------------------------------------------------------------

// @h props=C08,C03 fuc=Arc::make_mut
gproof! { fn c08_arc_make_mut__tr8() {
    let n = any_count();
    let mut a = mk(Tr8::new(), n);
    let (b0, id0, v0, c0) = (base(&a), a.id, a.v, cw(&a));
    let pp0 = &*a as *const Tr8;
    let w: u8 = kani::any();
    {
        let r = Arc::make_mut(&mut a);
        assert!(r.v == v0);
        r.v = w;
    }
    assert!(a.v == w && cnt(&a) == 1);
    if n == 1 {
        assert!(base(&a) == b0 && a.id == id0 && vrt::clones() == 0 && vrt::ga(1) && vrt::gd(0));
    } else {
        assert!(base(&a) != b0 && a.id != id0 && vrt::clones() == 1 && vrt::ga(2) && vrt::gd(0));
        // the previous allocation lost exactly one owner and still holds the old, unmodified value
        let old = pp0;
        assert!(rd(c0) == n - 1 && vrt::glive_at(b0));
        assert!(unsafe { (*old).v == v0 && (*old).id == id0 });
    }
    assert!(vrt::drops() == 0);
    kani::cover!(n == 1, "in place");
    kani::cover!(n > 1, "copied");
    core::mem::forget(a);
} }

// @h props=C08,C03 fuc=Arc::make_mut
gproof! { fn c08_arc_make_mut__a64_write_isolated() {
    let n = any_count();
    kani::assume(n > 1);
    let mut a = mk(S64a64::any(), n);
    let (b0, old_val, c0) = (base(&a), *a, cw(&a));
    let pp0 = &*a as *const S64a64;
    let w: [u8; 64] = kani::any();
    Arc::make_mut(&mut a).0 = w;
    assert!(a.0 == w && cnt(&a) == 1 && base(&a) != b0);
    assert!(unsafe { *pp0 } == old_val);
    assert!(rd(c0) == n - 1 && vrt::ga(2) && vrt::gd(0));
    core::mem::forget(a);
} }

// @h props=C08 fuc=Arc::make_mut note="payload without drop glue but with an observable Clone: the copy must be made with Clone, exactly once, and only when shared"
gproof! { fn c08_arc_make_mut__nodrop_clone_counted() {
    let n = any_count();
    let v: u32 = kani::any();
    let mut a = mk(vrt::Cc(v), n);
    let r = Arc::make_mut(&mut a);
    assert!(r.0 == v);
    assert!(vrt::clones() == if n == 1 { 0 } else { 1 });
    core::mem::forget(a);
} }

// @h props=C08,C03 fuc=Arc::make_mut,Arc::is_unique note="ZERO-SIZED payload: a sharer is still redirected to a fresh solely-owned copy made with Clone; the old allocation loses exactly one owner"
gproof! { fn c08_arc_make_mut__zst_clone_counted() {
    let n = any_count();
    let mut a = mk(vrt::Zc, n);
    let (b0, c0) = (base(&a), cw(&a));
    let _r = Arc::make_mut(&mut a);
    if n == 1 {
        assert!(base(&a) == b0 && vrt::clones() == 0 && vrt::ga(1));
    } else {
        assert!(base(&a) != b0 && cnt(&a) == 1 && rd(c0) == n - 1 && vrt::clones() == 1 && vrt::ga(2) && vrt::gd(0));
    }
    assert!(a.is_unique());
    core::mem::forget(a);
} }

// C08 over HISTORIES with a mix of handle kinds: the one other owner is produced by the given
// handle kind's own clone operation. If it is still alive when the writer calls make_mut the writer is
// redirected and the other owner keeps observing the old value; if it was released first the writer
// is the sole owner again and writes in place without cloning. (Concrete history of 3-4 operations,
// symbolic values; the per-operation contracts are asserted at every call on the way.)
macro_rules! h_cow_history {
    ($name:ident, $other:expr, $read:expr, $release:expr) => {
        gproof! { fn $name() {
            let (v0, w): (u32, u32) = (kani::any(), kani::any());
            let mut a = Arc::new(vrt::Cc(v0));
            let b0 = base(&a);
            let other = ($other)(&a);
            assert!(cnt(&a) == 2);
            if kani::any() {
                Arc::make_mut(&mut a).0 = w;
                assert!(a.0 == w && base(&a) != b0 && cnt(&a) == 1 && vrt::clones() == 1 && vrt::ga(2) && vrt::gd(0));
                assert!(($read)(&other) == v0 && vrt::glive_at(b0));
                ($release)(other);
                assert!(!vrt::g_live(b0) && vrt::gd(1) && a.0 == w);
            } else {
                ($release)(other);
                assert!(cnt(&a) == 1 && vrt::gd(0));
                Arc::make_mut(&mut a).0 = w;
                assert!(a.0 == w && base(&a) == b0 && cnt(&a) == 1 && vrt::clones() == 0 && vrt::ga(1) && vrt::gd(0));
            }
            drop(a);
            assert!(vrt::glive(0) && vrt::g_ok());
        } }
    };
}
// @h props=C08,C04 fuc=Arc::make_mut,Arc::clone,Arc::drop note="history: other owner from Arc::clone"
h_cow_history!(c08_history__other_from_arc_clone, |a: &Arc<vrt::Cc>| a.clone(), |o: &Arc<vrt::Cc>| o.0, |o: Arc<vrt::Cc>| drop(o));
// @h props=C08,C04 fuc=Arc::make_mut,OffsetArc::clone,OffsetArc::drop note="history: other owner from OffsetArc::clone"
h_cow_history!(c08_history__other_from_offset_clone, |a: &Arc<vrt::Cc>| { let o = Arc::into_raw_offset(a.clone()); let o2 = o.clone(); drop(o); o2 }, |o: &OffsetArc<vrt::Cc>| o.0, |o: OffsetArc<vrt::Cc>| drop(o));
// @h props=C08,C04 fuc=Arc::make_mut,Arc::with_raw_offset_arc,OffsetArc::clone_arc note="history: other owner from OffsetArc::clone_arc inside with_raw_offset_arc"
h_cow_history!(c08_history__other_from_offset_clone_arc, |a: &Arc<vrt::Cc>| a.with_raw_offset_arc(|o| o.clone_arc()), |o: &Arc<vrt::Cc>| o.0, |o: Arc<vrt::Cc>| drop(o));
// @h props=C08,C04 fuc=Arc::make_mut,Arc::borrow_arc,ArcBorrow::clone_arc note="history: other owner upgraded from an ArcBorrow"
h_cow_history!(c08_history__other_from_borrow_clone_arc, |a: &Arc<vrt::Cc>| a.borrow_arc().clone_arc(), |o: &Arc<vrt::Cc>| o.0, |o: Arc<vrt::Cc>| drop(o));
// @h props=C08,C04,C11 fuc=Arc::make_mut,Arc::into_raw,Arc::from_raw note="history: other owner is a leaked raw pointer"
h_cow_history!(c08_history__other_is_raw_pointer, |a: &Arc<vrt::Cc>| Arc::into_raw(a.clone()), |p: &*const vrt::Cc| unsafe { (**p).0 }, |p: *const vrt::Cc| unsafe { drop(Arc::from_raw(p)) });
// (an ArcUnion as the other owner exhausts CBMC's memory in a multi-operation harness; its clone and drop are under the C12/C04 per-operation contracts)

// @h props=C08,C04 fuc=OffsetArc::make_mut,ArcBorrow::clone_arc note="history with the OffsetArc writer: other owner upgraded from a borrow of it"
gproof! { fn c08_history__offset_writer_other_from_borrow() {
    let (v0, w): (u32, u32) = (kani::any(), kani::any());
    let mut o = Arc::into_raw_offset(Arc::new(vrt::Cc(v0)));
    let other = o.borrow_arc().clone_arc();
    let b0 = base(&other);
    assert!(cnt(&other) == 2);
    if kani::any() {
        o.make_mut().0 = w;
        assert!(o.0 == w && other.0 == v0 && cnt(&other) == 1 && vrt::clones() == 1 && vrt::ga(2));
        drop(other);
        assert!(!vrt::g_live(b0) && o.0 == w);
    } else {
        drop(other);
        o.make_mut().0 = w;
        assert!(o.0 == w && vrt::clones() == 0 && vrt::ga(1) && vrt::gd(0) && vrt::glive_at(b0));
    }
    drop(o);
    assert!(vrt::glive(0) && vrt::g_ok());
} }

// @h props=C03,C04 fuc=Arc::with_raw_offset_arc,Arc::get_mut,Arc::is_unique note="lending a sole owner through with_raw_offset_arc does not cost it its uniqueness"
gproof! { fn c03_arc_unique_after_with_raw_offset_arc() {
    let n = any_count();
    let mut a = mk(S9a8::any(), n);
    let inside = a.with_raw_offset_arc(|o| OffsetArc::strong_count(o));
    assert!(inside == n && cnt(&a) == n);
    assert!(a.is_unique() == (n == 1) && Arc::get_mut(&mut a).is_some() == (n == 1));
    core::mem::forget(a);
} }

// @h props=C08,C09 fuc=Arc::unwrap_or_clone note="payload without drop glue: cloned exactly once iff shared"
gproof! { fn c09_arc_unwrap_or_clone__nodrop_clone_counted() {
    let n = any_count();
    let v: u32 = kani::any();
    let a = mk(vrt::Cc(v), n);
    let r = Arc::unwrap_or_clone(a);
    assert!(r.0 == v && vrt::clones() == if n == 1 { 0 } else { 1 });
} }

// @h props=C08,C03,C04 fuc=Arc::make_unique,UniqueArc::from_arc_ref
gproof! { fn c08_arc_make_unique__tr8() {
    let n = any_count();
    let mut a = mk(Tr8::new(), n);
    let (b0, id0, v0, c0) = (base(&a), a.id, a.v, cw(&a));
    let pp0 = &*a as *const Tr8;
    let w: u8 = kani::any();
    {
        let u = Arc::make_unique(&mut a);
        assert!(u.v == v0);
        u.v = w;
    }
    assert!(a.v == w && cnt(&a) == 1);
    if n == 1 {
        assert!(base(&a) == b0 && a.id == id0 && vrt::clones() == 0 && vrt::ga(1) && vrt::gd(0));
    } else {
        assert!(base(&a) != b0 && vrt::clones() == 1 && vrt::ga(2) && vrt::gd(0));
        let old = pp0;
        assert!(rd(c0) == n - 1 && unsafe { (*old).v == v0 && (*old).id == id0 });
    }
    assert!(vrt::drops() == 0);
    core::mem::forget(a);
} }

// ------------------------------------------------------------------------------------------
// C09: unwrapping conserves the value
// ------------------------------------------------------------------------------------------

// @h props=C09,C03,C05 fuc=Arc::try_unwrap,Arc::try_unique,UniqueArc::into_inner
gproof! { fn c09_arc_try_unwrap__tr8() {
    let n = any_count();
    let a = mk(Tr8::new(), n);
    let (b0, id, c0) = (base(&a), a.id, cw(&a));
    let pp0 = &*a as *const Tr8;
    match Arc::try_unwrap(a) {
        Ok(v) => {
            assert!(n == 1 && v.id == id && !vrt::dropped(id));
            assert!(vrt::gd(1) && !vrt::g_live(b0));
            core::mem::forget(v);
        }
        Err(a2) => {
            assert!(n != 1 && base(&a2) == b0 && cnt(&a2) == n && a2.id == id);
            assert!(vrt::gd(0) && vrt::glive_at(b0));
            core::mem::forget(a2);
        }
    }
    assert!(vrt::drops() == 0 && vrt::clones() == 0 && vrt::ga(1));
    kani::cover!(n == 1, "moved out");
    kani::cover!(n > 1, "kept");
} }

// @h props=C09,C05 fuc=Arc::try_unwrap,UniqueArc::into_inner
gproof! { fn c09_arc_try_unwrap__a64() {
    let n = any_count();
    let val = S64a64::any();
    let a = mk(val, n);
    let (b0, c0) = (base(&a), cw(&a));
    match Arc::try_unwrap(a) {
        Ok(v) => { assert!(n == 1 && v == val && vrt::gd(1) && !vrt::g_live(b0)); }
        Err(a2) => { assert!(n != 1 && base(&a2) == b0 && cnt(&a2) == n && *a2 == val && vrt::gd(0)); core::mem::forget(a2); }
    }
} }

// @h props=C09,C05 fuc=Arc::try_unwrap,UniqueArc::into_inner note="zero-sized payload: the value comes out (destructor not run) and the 8-byte block is still released"
gproof! { fn c09_arc_try_unwrap__zst_with_drop() {
    let n = any_count();
    let a = mk(Zd, n);
    let (b0, c0) = (base(&a), cw(&a));
    match Arc::try_unwrap(a) {
        Ok(v) => { assert!(n == 1 && unsafe { vrt::ZDROPS } == 0 && vrt::gd(1) && !vrt::g_live(b0)); drop(v); assert!(unsafe { vrt::ZDROPS } == 1); }
        Err(a2) => { assert!(n != 1 && base(&a2) == b0 && cnt(&a2) == n && unsafe { vrt::ZDROPS } == 0 && vrt::gd(0)); core::mem::forget(a2); }
    }
    kani::cover!(n == 1, "moved out");
} }

/// payload whose Clone releases a parked co-owner: "the other owner goes away while we are cloning"
pub(crate) struct Pk { pub t: Tr8, pub park: *mut Option<Arc<Pk>> }
impl Clone for Pk {
    fn clone(&self) -> Pk {
        unsafe { if let Some(o) = (*self.park).take() { drop(o); } }
        Pk { t: self.t.clone(), park: core::ptr::null_mut() }
    }
}

// @h props=C09,C01 fuc=Arc::unwrap_or_clone,Arc::try_unwrap,Arc::drop note="history: the only other owner is released while Clone runs -> our release is the last one and must destroy the value (handed out once or kept, never neither)"
gproof! { fn c09_arc_unwrap_or_clone__co_owner_released_during_clone() {
    let mut slot: Option<Arc<Pk>> = None;
    let a = Arc::new(Pk { t: Tr8::new(), park: &mut slot as *mut _ });
    let id = a.t.id;
    slot = Some(a.clone());
    let r = Arc::unwrap_or_clone(a);
    // the caller got a clone; the original has no owner left: destroyed exactly once, block returned
    assert!(r.t.id != id && vrt::clones() == 1 && slot.is_none());
    assert!(vrt::dropped(id) && vrt::drops() == 1 && vrt::gd(1) && vrt::glive(0));
    core::mem::forget(r);
} }

// @h props=C09,C05 fuc=UniqueArc::into_inner
gproof! { fn c09_unique_into_inner__tr16() {
    let u = UniqueArc::new(Tr16::new());
    let id = u.id;
    let v = UniqueArc::into_inner(u);
    assert!(v.id == id && !vrt::dropped(id) && vrt::drops() == 0 && vrt::clones() == 0);
    assert!(vrt::ga(1) && vrt::gd(1) && vrt::glive(0));
    drop(v);
    assert!(vrt::drops() == 1);
} }

// payloads whose size is not a multiple of 8: the block is LARGER than count + payload (tail padding
// of ArcInner), so a release path that rebuilds the layout by hand must pad it again
macro_rules! h_try_unwrap_shape {
    ($name:ident, $S:ident) => {
        gproof! { fn $name() {
            let n = any_count();
            let val = $S::any();
            let a = mk(val, n);
            let (b0, c0) = (base(&a), cw(&a));
            let req = vrt::g_req(b0);
            assert!(!vrt::g_on() || (req.0 as u128 == vrt::spec_block(core::alloc::Layout::new::<$S>()).0 && req.0 % 8 == 0 && req.0 > 8 + core::mem::size_of::<$S>()));
            match Arc::try_unwrap(a) {
                Ok(v) => { assert!(n == 1 && v == val && vrt::gd(1) && !vrt::g_live(b0)); }
                Err(a2) => { assert!(n != 1 && base(&a2) == b0 && cnt(&a2) == n && *a2 == val && vrt::gd(0)); core::mem::forget(a2); }
            }
            kani::cover!(n == 1, "moved out");
        } }
    };
}
macro_rules! h_into_inner_shape {
    ($name:ident, $S:ident) => {
        gproof! { fn $name() {
            let val = $S::any();
            let u = UniqueArc::new(val);
            let v = UniqueArc::into_inner(u);
            assert!(v == val && vrt::ga(1) && vrt::gd(1) && vrt::glive(0));
        } }
    };
}
// @h props=C09,C05 fuc=Arc::try_unwrap,UniqueArc::into_inner note="3-byte payload: block of 16 bytes, count + payload only 11"
h_try_unwrap_shape!(c09_arc_try_unwrap__s3, S3);
// @h props=C09,C05 fuc=Arc::try_unwrap,UniqueArc::into_inner note="1-byte payload"
h_try_unwrap_shape!(c09_arc_try_unwrap__s1, S1);
// @h props=C09,C05 fuc=UniqueArc::into_inner note="3-byte payload"
h_into_inner_shape!(c09_unique_into_inner__s3, S3);
// @h props=C09,C05 fuc=UniqueArc::into_inner note="2-byte, 2-aligned payload"
h_into_inner_shape!(c09_unique_into_inner__s2a2, S2a2);

// @h props=C09 fuc=Arc::unwrap_or_clone
gproof! { fn c09_arc_unwrap_or_clone__tr8() {
    let n = any_count();
    let a = mk(Tr8::new(), n);
    let (b0, id, v0, c0) = (base(&a), a.id, a.v, cw(&a));
    let pp0 = &*a as *const Tr8;
    let v = Arc::unwrap_or_clone(a);
    assert!(v.v == v0);
    if n == 1 {
        assert!(v.id == id && vrt::clones() == 0 && vrt::gd(1) && !vrt::g_live(b0));
    } else {
        assert!(v.id != id && vrt::clones() == 1 && rd(c0) == n - 1 && vrt::gd(0) && vrt::glive_at(b0));
        assert!(unsafe { (*pp0).id } == id && !vrt::dropped(id));
    }
    assert!(vrt::drops() == 0 && vrt::ga(1));
    core::mem::forget(v);
    kani::cover!(n == 1, "moved out");
    kani::cover!(n > 1, "cloned");
} }

// ------------------------------------------------------------------------------------------
// C16: overflow of the count
// ------------------------------------------------------------------------------------------

// @h props=C16 kind=panic site="abort" fuc=Arc::clone
gpanic! { fn c16_arc_clone_overflow_aborts() {
    let n = vrt::overflow_count();
    let a = mk(S1::any(), n);
    let b = a.clone();
    core::mem::forget(a);
    core::mem::forget(b);
} }

// @h props=C16 kind=panic site="abort" fuc=Arc::clone
gpanic! { fn c16_arc_clone_overflow_aborts__slice() {
    let n = vrt::overflow_count();
    let a = mk_slice_u32();
    set_cnt(&a, n);
    let b = a.clone();
    core::mem::forget(a);
    core::mem::forget(b);
} }

// @h props=C16 kind=panic site="abort" fuc=Arc::clone
gpanic! { fn c16_arc_clone_overflow_aborts__dyn() {
    let n = vrt::overflow_count();
    let a = mk_dyn(S1::any());
    set_cnt(&a, n);
    let b = a.clone();
    core::mem::forget(a);
    core::mem::forget(b);
} }

// @h props=C16 fuc=Arc::clone note="every count up to isize::MAX: clone succeeds and adds exactly one"
gproof! { fn c16_arc_clone_below_limit_adds_one() {
    let n = any_count();
    let a = mk(S1::any(), n);
    let b = a.clone();
    assert!(cnt(&a) == n + 1);
    kani::cover!(n == isize::MAX as usize - 1, "boundary isize::MAX - 1");
    kani::cover!(n == (1usize << 32), "2^32");
    core::mem::forget(a);
    core::mem::forget(b);
} }

// ------------------------------------------------------------------------------------------
// C07: allocation failure (private allocator entry point)
// ------------------------------------------------------------------------------------------

// @h props=C07 fuc=Arc::try_allocate_for_layout note="allocator failure: Err, nothing written"
gproof! { fn c07_try_allocate_failure_is_err() {
    let keep = Arc::new(1u8); // makes the ghost allocator visible (END cover)
    unsafe { vrt::G_FAIL_AT = vrt::G_ALLOCS + 1; }
    let r = unsafe { Arc::<u64>::try_allocate_for_layout(Layout::new::<u64>(), |mem| mem as *mut ArcInner<u64>) };
    assert!(r.is_err() && vrt::glive(1));
    core::mem::forget(keep);
} }


// ------------------------------------------------------------------------------------------
// C14: comparison, ordering, hashing and formatting see through the pointer (delegation, all answers)
// ------------------------------------------------------------------------------------------
use crate::vrt::{Ip, OP_DEBUG, OP_DISPLAY, OP_HASH};

macro_rules! h_arc_cmp_delegates {
    ($name:ident, $call:expr, $ret:ty, $expect:expr $(, $assume:expr)?) => {
        gproof! { fn $name() {
            let (n, m) = (any_count(), any_count());
            let a = mk(Ip(kani::any()), n);
            let b = mk(Ip(kani::any()), m);
            vrt::ip_setup(data(&a), data(&b));
            vrt::ip_watch(cw(&a));
            $( kani::assume($assume); )?
            let f: fn(&Arc<Ip>, &Arc<Ip>) -> $ret = $call;
            let r: $ret = f(&a, &b);
            // while the values were being compared the count was what it was before (no transient owner)
            assert!(vrt::ip_seen_only(n));
            // the answer is the one comparing the VALUES gives; the values (and only they) were consulted
            let want: $ret = $expect;
            assert!(r == want);
            assert!(vrt::ip_consulted());
            assert!(cnt(&a) == n && cnt(&b) == m && vrt::ga(2) && vrt::gd(0));
            core::mem::forget(a);
            core::mem::forget(b);
        } }
    };
}
use core::cmp::Ordering as O;
// @h props=C14,C04 fuc=Arc::eq
h_arc_cmp_delegates!(c14_arc_eq_delegates, |a, b| a == b, bool, vrt::ip_ord() == Some(O::Equal));
// @h props=C14,C04 fuc=Arc::ne
h_arc_cmp_delegates!(c14_arc_ne_delegates, |a, b| a != b, bool, vrt::ip_ord() != Some(O::Equal));
// @h props=C14,C04 fuc=Arc::partial_cmp
h_arc_cmp_delegates!(c14_arc_partial_cmp_delegates, |a, b| a.partial_cmp(b), Option<O>, vrt::ip_ord());
// @h props=C14 fuc=Arc::lt
h_arc_cmp_delegates!(c14_arc_lt_delegates, |a, b| a < b, bool, vrt::ip_ord() == Some(O::Less));
// @h props=C14 fuc=Arc::le
h_arc_cmp_delegates!(c14_arc_le_delegates, |a, b| a <= b, bool, vrt::ip_ord() == Some(O::Less) || vrt::ip_ord() == Some(O::Equal));
// @h props=C14 fuc=Arc::gt
h_arc_cmp_delegates!(c14_arc_gt_delegates, |a, b| a > b, bool, vrt::ip_ord() == Some(O::Greater));
// @h props=C14 fuc=Arc::ge
h_arc_cmp_delegates!(c14_arc_ge_delegates, |a, b| a >= b, bool, vrt::ip_ord() == Some(O::Greater) || vrt::ip_ord() == Some(O::Equal));
// @h props=C14,C04 fuc=Arc::cmp
h_arc_cmp_delegates!(c14_arc_cmp_delegates, |a, b| a.cmp(b), O, vrt::ip_ord().unwrap(), vrt::ip_ord().is_some());

// @h props=C14 fuc=Arc::eq,Arc::ne,Arc::ptr_eq note="licence: two handles to the same allocation compare equal, the value need not be consulted"
gproof! { fn c14_arc_same_allocation_licence() {
    let n = any_count();
        let a = mk(Ip(kani::any()), n);
    let a2 = a.clone();
    vrt::ip_setup(data(&a), data(&a));
    // whether or not the value is consulted (it is equal to itself here), same allocation => equal
    assert!(a == a2 && !(a != a2));
    assert!(unsafe { !vrt::IP_FOREIGN });
    core::mem::forget(a);
    core::mem::forget(a2);
} }

// @h props=C14,C01,C04 fuc=Arc::max,Arc::min,Arc::cmp note="provided Ord::max / Ord::min (by value): the handle returned holds the greater / smaller VALUE, the other handle is released exactly once"
gproof! { fn c14_arc_ord_max_min_by_value() {
    let (n, m) = (any_count(), any_count());
    kani::assume(n > 1 && m > 1);
    let a = mk(Ip(kani::any()), n);
    let b = mk(Ip(kani::any()), m);
    let (da, db, ca, cb) = (data(&a), data(&b), cw(&a), cw(&b));
    vrt::ip_setup(da, db);
    unsafe { kani::assume(vrt::IP_ORD != 0); }
    let want_max = if vrt::ip_ord() == Some(core::cmp::Ordering::Greater) { da } else { db };
    let use_min: bool = kani::any();
    let r = if use_min { Ord::min(a, b) } else { Ord::max(a, b) };
    let rd_ = data(&r);
    if vrt::ip_ord() == Some(core::cmp::Ordering::Equal) {
        assert!(rd_ == da || rd_ == db);
    } else if use_min {
        assert!(rd_ == if want_max == da { db } else { da });
    } else {
        assert!(rd_ == want_max);
    }
    // the handle not returned was released exactly once, the returned one kept its reference
    assert!(rd(ca) + rd(cb) == n + m - 1 && rd(if rd_ == da { ca } else { cb }) == if rd_ == da { n } else { m });
    assert!(!unsafe { vrt::IP_FOREIGN } && vrt::gd(0));
    core::mem::forget(r);
} }

// @h props=C14,C04 fuc=Arc::hash
gproof! { fn c14_arc_hash_delegates() {
    use core::hash::Hash;
    let n = any_count();
    let a = mk(Ip(kani::any()), n);
    let v = a.0;
    let mut h = vrt::RecHasher::new();
    let hp = &h as *const vrt::RecHasher as usize;
    vrt::ip_watch(cw(&a));
    a.hash(&mut h);
    assert!(vrt::ip_seen_only(n));
    assert!(vrt::ip_calls(OP_HASH) >= 1 && vrt::ip_args(data(&a), hp));
    // the hasher saw exactly what hashing the value itself feeds it
    let mut h2 = vrt::RecHasher::new();
    (*a).hash(&mut h2);
    assert!(h.n == h2.n && h.n == 1 && h.bytes[0] == v && h2.bytes[0] == v);
    assert!(cnt(&a) == n);
    core::mem::forget(a);
} }

// @h props=C14 fuc=Arc::hash note="payloads that occupy NO bytes still feed the hasher (str terminator, slice length prefix): a handle hashes exactly as the value it holds - empty str, empty slice, slices of zero-sized elements of two lengths"
gproof! { #[kani::unwind(26)] fn c14_arc_hash_zero_byte_unsized_payloads() {
    use core::hash::Hash;
    fn same<T: ?Sized + Hash>(a: &Arc<T>) -> bool {
        let (mut h1, mut h2) = (vrt::RecHasher::new(), vrt::RecHasher::new());
        a.hash(&mut h1);
        (**a).hash(&mut h2);
        h1.n == h2.n && h1.n >= 1 && h1.bytes == h2.bytes
    }
    let s: Arc<str> = Arc::from("");
    let e: Arc<[u32]> = Arc::from(&[][..]);
    let z2: Arc<[()]> = Arc::from(alloc::vec![(), ()]);
    let z3: Arc<[()]> = Arc::from(alloc::vec![(), (), ()]);
    assert!(same(&s) && same(&e) && same(&z2) && same(&z3));
    let (mut h2, mut h3) = (vrt::RecHasher::new(), vrt::RecHasher::new());
    z2.hash(&mut h2);
    z3.hash(&mut h3);
    assert!(h2.bytes != h3.bytes);
    core::mem::forget(s); core::mem::forget(e); core::mem::forget(z2); core::mem::forget(z3);
} }

// @h props=C14,C04 fuc=Arc::fmt(Debug),Arc::fmt(Display)
gproof! { fn c14_arc_debug_display_delegate() {
    let n = any_count();
    let a = mk(Ip(kani::any()), n);
    unsafe { vrt::IP_FMT_OK = kani::any(); }
    vrt::ip_watch(cw(&a));
    let ok = vrt::debug_ok(&a);
    assert!(vrt::ip_seen_only(n));
    assert!(vrt::ip_only(OP_DEBUG) && vrt::ip_args(data(&a), unsafe { vrt::FMT_ADDR }) && ok == unsafe { vrt::IP_FMT_OK });
    let ok2 = vrt::display_ok(&a);
    assert!(vrt::ip_calls(OP_DISPLAY) == 1 && vrt::ip_total() == 2 && vrt::ip_args(data(&a), unsafe { vrt::FMT_ADDR }));
    assert!(ok2 == unsafe { vrt::IP_FMT_OK } && cnt(&a) == n);
    core::mem::forget(a);
} }

// @h props=C14 fuc=Arc::borrow,Arc::as_ref note="an Arc<T> can stand in for T as a map key through Borrow"
gproof! { fn c14_arc_borrow_asref_value_address() {
    use core::borrow::Borrow;
    let a = Arc::new(S9a8::any());
    let b: &S9a8 = a.borrow();
    let r: &S9a8 = a.as_ref();
    assert!(vrt::addr(b as *const S9a8) == data(&a) && vrt::addr(r as *const S9a8) == data(&a));
    core::mem::forget(a);
} }

// @h props=C14 fuc=Arc::eq,Arc::partial_cmp note="partially ordered payload (f32 incl. NaN), distinct allocations: == iff partial_cmp is Equal, relational ops agree"
gproof! { fn c14_arc_f32_consistency() {
    let (x, y): (f32, f32) = (kani::any(), kani::any());
    let (a, b) = (Arc::new(x), Arc::new(y));
    assert!((a == b) == (x == y) && (a != b) == (x != y));
    assert!(a.partial_cmp(&b) == x.partial_cmp(&y));
    assert!((a < b) == (x < y) && (a <= b) == (x <= y) && (a > b) == (x > y) && (a >= b) == (x >= y));
    assert!((a == b) == (a.partial_cmp(&b) == Some(core::cmp::Ordering::Equal)));
    core::mem::forget(a);
    core::mem::forget(b);
} }

// ------------------------------------------------------------------------------------------
// C17: serde — serialisation is transparent, deserialisation yields a fresh sole owner
// ------------------------------------------------------------------------------------------
#[cfg(feature = "serde")]
pub(crate) mod serde_h {
    use crate::arc::Arc;
    use crate::unique_arc::UniqueArc;
    use crate::vrt;
    use crate::vrt::{base, cnt, data};
    use core::fmt;
    use serde::de::{Deserialize, Deserializer, Visitor};
    use serde::ser::{Impossible, Serialize, Serializer};

    #[derive(Debug, PartialEq, Clone, Copy)]
    pub struct E(pub u8);
    impl fmt::Display for E {
        fn fmt(&self, _f: &mut fmt::Formatter) -> fmt::Result {
            Ok(())
        }
    }
    impl serde::ser::StdError for E {}
    impl serde::ser::Error for E {
        fn custom<T: fmt::Display>(_m: T) -> Self {
            E(255)
        }
    }
    impl serde::de::Error for E {
        fn custom<T: fmt::Display>(_m: T) -> Self {
            E(255)
        }
    }

    // recording serializer: carries a token (identity of THIS serializer) and a symbolic outcome
    pub static mut REC_CALLS: usize = 0;
    pub static mut REC_LAST: u32 = 0;
    pub static mut REC_TOKEN: u8 = 0;
    pub struct Rec {
        pub token: u8,
        pub outcome: Result<u16, E>,
        pub human: bool, // what is_human_readable answers (compact binary formats say false)
    }
    macro_rules! other { ($($n:ident($t:ty)),*) => { $( fn $n(self, _v: $t) -> Result<u16, E> { unsafe { REC_CALLS += 100; } Err(E(254)) } )* } }
    impl Serializer for Rec {
        type Ok = u16;
        type Error = E;
        type SerializeSeq = Impossible<u16, E>;
        type SerializeTuple = Impossible<u16, E>;
        type SerializeTupleStruct = Impossible<u16, E>;
        type SerializeTupleVariant = Impossible<u16, E>;
        type SerializeMap = Impossible<u16, E>;
        type SerializeStruct = Impossible<u16, E>;
        type SerializeStructVariant = Impossible<u16, E>;
        fn is_human_readable(&self) -> bool {
            self.human
        }
        fn serialize_u32(self, v: u32) -> Result<u16, E> {
            unsafe {
                REC_CALLS += 1;
                REC_LAST = v;
                REC_TOKEN = self.token;
            }
            self.outcome
        }
        other!(serialize_bool(bool), serialize_i8(i8), serialize_i16(i16), serialize_i32(i32), serialize_i64(i64), serialize_u8(u8),
               serialize_u16(u16), serialize_u64(u64), serialize_f32(f32), serialize_f64(f64), serialize_char(char),
               serialize_str(&str), serialize_bytes(&[u8]), serialize_unit_struct(&'static str));
        fn collect_str<T: ?Sized + fmt::Display>(self, _v: &T) -> Result<u16, E> { unsafe { REC_CALLS += 100; } Err(E(254)) }
        fn serialize_none(self) -> Result<u16, E> { unsafe { REC_CALLS += 100; } Err(E(254)) }
        fn serialize_some<T: ?Sized + Serialize>(self, _v: &T) -> Result<u16, E> { unsafe { REC_CALLS += 100; } Err(E(254)) }
        fn serialize_unit(self) -> Result<u16, E> { unsafe { REC_CALLS += 100; } Err(E(254)) }
        fn serialize_unit_variant(self, _n: &'static str, _i: u32, _v: &'static str) -> Result<u16, E> { unsafe { REC_CALLS += 100; } Err(E(254)) }
        fn serialize_newtype_struct<T: ?Sized + Serialize>(self, _n: &'static str, _v: &T) -> Result<u16, E> { unsafe { REC_CALLS += 100; } Err(E(254)) }
        fn serialize_newtype_variant<T: ?Sized + Serialize>(self, _n: &'static str, _i: u32, _va: &'static str, _v: &T) -> Result<u16, E> { unsafe { REC_CALLS += 100; } Err(E(254)) }
        fn serialize_seq(self, _l: Option<usize>) -> Result<Self::SerializeSeq, E> { unsafe { REC_CALLS += 100; } Err(E(254)) }
        fn serialize_tuple(self, _l: usize) -> Result<Self::SerializeTuple, E> { unsafe { REC_CALLS += 100; } Err(E(254)) }
        fn serialize_tuple_struct(self, _n: &'static str, _l: usize) -> Result<Self::SerializeTupleStruct, E> { unsafe { REC_CALLS += 100; } Err(E(254)) }
        fn serialize_tuple_variant(self, _n: &'static str, _i: u32, _v: &'static str, _l: usize) -> Result<Self::SerializeTupleVariant, E> { unsafe { REC_CALLS += 100; } Err(E(254)) }
        fn serialize_map(self, _l: Option<usize>) -> Result<Self::SerializeMap, E> { unsafe { REC_CALLS += 100; } Err(E(254)) }
        fn serialize_struct(self, _n: &'static str, _l: usize) -> Result<Self::SerializeStruct, E> { unsafe { REC_CALLS += 100; } Err(E(254)) }
        fn serialize_struct_variant(self, _n: &'static str, _i: u32, _v: &'static str, _l: usize) -> Result<Self::SerializeStructVariant, E> { unsafe { REC_CALLS += 100; } Err(E(254)) }
    }

    // instrumented payload: records that ITS serialize ran, on which address
    pub static mut SP_CALLS: usize = 0;
    pub static mut SP_SELF: usize = 0;
    pub struct Sp(pub u32);
    impl Serialize for Sp {
        fn serialize<S: Serializer>(&self, s: S) -> Result<S::Ok, S::Error> {
            unsafe {
                SP_CALLS += 1;
                SP_SELF = self as *const Sp as usize;
            }
            s.serialize_u32(self.0)
        }
    }
    fn any_outcome() -> Result<u16, E> {
        if kani::any() { Ok(kani::any()) } else { Err(E(kani::any())) }
    }

    // @h props=C17,C04 mod=serde_h fuc=Arc::serialize note="every value, every serializer outcome (errors included)"
    gproof! { fn c17_arc_serialize_transparent() {
        let n = vrt::any_count();
        let v: u32 = kani::any();
        let a = vrt::mk(Sp(v), n);
        let (token, outcome) = (kani::any::<u8>(), any_outcome());
        let human: bool = kani::any();
        let r = a.serialize(Rec { token, outcome, human });
        // the value's own serialize ran exactly once, on &*arc, with THAT serializer; result unchanged
        assert!(unsafe { SP_CALLS == 1 && SP_SELF == data(&a) });
        assert!(unsafe { REC_CALLS == 1 && REC_LAST == v && REC_TOKEN == token });
        assert!(r == outcome && cnt(&a) == n && vrt::ga(1) && vrt::gd(0));
        core::mem::forget(a);
    } }

    // zero-sized payload with its own (non-unit) serialisation
    pub struct Sz;
    impl Serialize for Sz {
        fn serialize<S: Serializer>(&self, s: S) -> Result<S::Ok, S::Error> {
            unsafe { SP_CALLS += 1; SP_SELF = self as *const Sz as usize; }
            s.serialize_u32(0xC0FFEE)
        }
    }
    // @h props=C17 mod=serde_h fuc=Arc::serialize,UniqueArc::serialize note="zero-sized payload: still serialised by ITS OWN serialize, not by a shortcut"
    gproof! { fn c17_serialize_zero_sized_payload_transparent() {
        let a = Arc::new(Sz);
        let (token, outcome) = (kani::any::<u8>(), any_outcome());
        let human: bool = kani::any();
        let r = a.serialize(Rec { token, outcome, human });
        assert!(unsafe { SP_CALLS == 1 && SP_SELF == data(&a) && REC_CALLS == 1 && REC_LAST == 0xC0FFEE && REC_TOKEN == token } && r == outcome);
        let u = UniqueArc::new(Sz);
        let r2 = u.serialize(Rec { token, outcome, human });
        assert!(unsafe { SP_CALLS == 2 && REC_CALLS == 2 } && r2 == outcome);
        core::mem::forget(a);
        core::mem::forget(u);
    } }

    // @h props=C17 mod=serde_h fuc=UniqueArc::serialize
    gproof! { fn c17_unique_serialize_transparent() {
        let v: u32 = kani::any();
        let u = UniqueArc::new(Sp(v));
        let d0 = data(crate::unique_arc::kani_h::inner_arc(&u));
        let (token, outcome) = (kani::any::<u8>(), any_outcome());
        let human: bool = kani::any();
        let r = u.serialize(Rec { token, outcome, human });
        assert!(unsafe { SP_CALLS == 1 && SP_SELF == d0 });
        assert!(unsafe { REC_CALLS == 1 && REC_LAST == v && REC_TOKEN == token });
        assert!(r == outcome && vrt::ga(1) && vrt::gd(0));
        core::mem::forget(u);
    } }

    // byte-aligned, multi-byte payload without drop glue, with its OWN serialisation
    pub struct Sb(pub [u8; 2]);
    impl Serialize for Sb {
        fn serialize<S: Serializer>(&self, s: S) -> Result<S::Ok, S::Error> {
            unsafe { SP_CALLS += 1; SP_SELF = self as *const Sb as usize; }
            s.serialize_u32(self.0[0] as u32 * 256 + self.0[1] as u32)
        }
    }
    // @h props=C17 mod=serde_h fuc=Arc::serialize,UniqueArc::serialize note="alignment-1 multi-byte payload, human-readable AND compact (is_human_readable() == false) serializers: still exactly the value's own calls, no raw-bytes shortcut"
    gproof! { fn c17_serialize_byte_struct_any_format() {
        let v: [u8; 2] = kani::any();
        let (token, outcome) = (kani::any::<u8>(), any_outcome());
        let human: bool = kani::any();
        let want = v[0] as u32 * 256 + v[1] as u32;
        let a = Arc::new(Sb(v));
        let r = a.serialize(Rec { token, outcome, human });
        assert!(unsafe { SP_CALLS == 1 && SP_SELF == data(&a) && REC_CALLS == 1 && REC_LAST == want && REC_TOKEN == token } && r == outcome);
        let u = UniqueArc::new(Sb(v));
        let r2 = u.serialize(Rec { token, outcome, human });
        assert!(unsafe { SP_CALLS == 2 && REC_CALLS == 2 && REC_LAST == want } && r2 == outcome);
        kani::cover!(!human, "compact format");
        core::mem::forget(a);
        core::mem::forget(u);
    } }

    // @h props=C17 mod=serde_h fuc=Arc::serialize note="cross-check with serde's own impl for u32"
    gproof! { fn c17_arc_serialize_u32_same_calls_as_value() {
        let v: u32 = kani::any();
        let a = Arc::new(v);
        let (token, outcome) = (kani::any::<u8>(), any_outcome());
        let human: bool = kani::any();
        let r = a.serialize(Rec { token, outcome, human });
        let (c1, l1, t1) = unsafe { (REC_CALLS, REC_LAST, REC_TOKEN) };
        let r2 = v.serialize(Rec { token, outcome, human });
        assert!(r == r2 && c1 == 1 && unsafe { REC_CALLS } == 2 && l1 == unsafe { REC_LAST } && t1 == token);
        core::mem::forget(a);
    } }

    // deserializer with a symbolic outcome
    pub struct De {
        pub outcome: Result<u32, E>,
    }
    impl<'de> Deserializer<'de> for De {
        type Error = E;
        fn deserialize_any<V: Visitor<'de>>(self, v: V) -> Result<V::Value, E> {
            match self.outcome {
                Ok(x) => v.visit_u32(x),
                Err(e) => Err(e),
            }
        }
        serde::forward_to_deserialize_any! { bool i8 i16 i32 i64 i128 u8 u16 u32 u64 u128 f32 f64 char str string bytes byte_buf option unit unit_struct newtype_struct seq tuple tuple_struct map struct enum identifier ignored_any }
    }
    pub static mut DP_CALLS: usize = 0;
    pub struct Dp(pub u32);
    impl<'de> Deserialize<'de> for Dp {
        fn deserialize<D: Deserializer<'de>>(d: D) -> Result<Dp, D::Error> {
            unsafe { DP_CALLS += 1; }
            u32::deserialize(d).map(Dp)
        }
    }
    fn any_de() -> Result<u32, E> {
        if kani::any() { Ok(kani::any()) } else { Err(E(kani::any())) }
    }

    // @h props=C17 mod=serde_h fuc=Arc::deserialize note="Ok: fresh sole owner of an equal value; Err: passed through unchanged, no allocation made"
    gproof! { fn c17_arc_deserialize_fresh_owner_or_error() {
        let keep = Arc::new(0u8);
        let a0 = vrt::g_allocs();
        let outcome = any_de();
        let r: Result<Arc<Dp>, E> = Arc::<Dp>::deserialize(De { outcome });
        assert!(unsafe { DP_CALLS } == 1);
        match (r, outcome) {
            (Ok(a), Ok(x)) => { assert!(a.0 == x && cnt(&a) == 1 && vrt::ga(a0 + 1) && vrt::gd(0) && base(&a) != base(&keep)); core::mem::forget(a); }
            (Err(e), Err(f)) => { assert!(e == f && vrt::ga(a0) && vrt::gd(0) && vrt::glive(1)); }
            _ => { assert!(false, "deserialize outcome does not follow the value's own deserializer"); }
        }
        kani::cover!(outcome.is_ok(), "ok path");
        kani::cover!(outcome.is_err(), "error path");
        core::mem::forget(keep);
    } }

    // @h props=C17,C08 mod=serde_h fuc=Arc::deserialize_in_place note="serde's in-place entry point (what tuples, arrays and derived containers call) on a SHARED handle: the place ends up a fresh sole owner, the old block loses one owner and its value is untouched; Err leaves the place as it was"
    gproof! { fn c17_arc_deserialize_in_place_shared() {
        let n = vrt::any_count();
        kani::assume(n > 1);
        let v0: u32 = kani::any();
        let mut place = vrt::mk(Dp(v0), n);
        let (b0, c0, p0) = (base(&place), vrt::cw(&place), Arc::as_ptr(&place));
        let a0 = vrt::g_allocs();
        let outcome = any_de();
        let r: Result<(), E> = Deserialize::deserialize_in_place(De { outcome }, &mut place);
        match (r, outcome) {
            (Ok(()), Ok(x)) => {
                assert!(place.0 == x && cnt(&place) == 1 && base(&place) != b0 && vrt::ga(a0 + 1) && vrt::gd(0));
                assert!(vrt::rd(c0) == n - 1 && unsafe { (*p0).0 } == v0 && vrt::glive_at(b0));
            }
            (Err(e), Err(f)) => { assert!(e == f && base(&place) == b0 && cnt(&place) == n && place.0 == v0 && vrt::ga(a0) && vrt::gd(0)); }
            _ => { assert!(false, "deserialize_in_place outcome does not follow the value's own deserializer"); }
        }
        kani::cover!(outcome.is_ok(), "ok path");
        core::mem::forget(place);
    } }

    // @h props=C17 mod=serde_h fuc=Arc::deserialize_in_place note="sole owner: whether or not the block is reused, the place is a sole owner of the new value and nothing is leaked"
    gproof! { fn c17_arc_deserialize_in_place_sole() {
        let v0: u32 = kani::any();
        let mut place = Arc::new(Dp(v0));
        let outcome = any_de();
        let r: Result<(), E> = Deserialize::deserialize_in_place(De { outcome }, &mut place);
        match (r, outcome) {
            (Ok(()), Ok(x)) => { assert!(place.0 == x && cnt(&place) == 1 && vrt::glive(1) && vrt::g_ok()); }
            (Err(e), Err(f)) => { assert!(e == f && cnt(&place) == 1 && place.0 == v0 && vrt::glive(1)); }
            _ => { assert!(false, "deserialize_in_place outcome does not follow the value's own deserializer"); }
        }
        core::mem::forget(place);
    } }

    // @h props=C17,C03 mod=serde_h fuc=UniqueArc::deserialize_in_place note="serde's in-place entry point on a UniqueArc: afterwards still the sole owner of the new value, nothing leaked; Err leaves the place as it was"
    gproof! { fn c17_unique_deserialize_in_place() {
        let v0: u32 = kani::any();
        let mut place = UniqueArc::new(Dp(v0));
        let outcome = any_de();
        let r: Result<(), E> = Deserialize::deserialize_in_place(De { outcome }, &mut place);
        match (r, outcome) {
            (Ok(()), Ok(x)) => { assert!((*place).0 == x && cnt(crate::unique_arc::kani_h::inner_arc(&place)) == 1 && vrt::glive(1) && vrt::g_ok()); }
            (Err(e), Err(f)) => { assert!(e == f && (*place).0 == v0 && cnt(crate::unique_arc::kani_h::inner_arc(&place)) == 1 && vrt::glive(1)); }
            _ => { assert!(false, "deserialize_in_place outcome does not follow the value's own deserializer"); }
        }
        core::mem::forget(place);
    } }

    // @h props=C17,C03 mod=serde_h fuc=UniqueArc::deserialize
    gproof! { fn c17_unique_deserialize_fresh_owner_or_error() {
        let keep = Arc::new(0u8);
        let a0 = vrt::g_allocs();
        let outcome = any_de();
        let r: Result<UniqueArc<Dp>, E> = UniqueArc::<Dp>::deserialize(De { outcome });
        assert!(unsafe { DP_CALLS } == 1);
        match (r, outcome) {
            (Ok(u), Ok(x)) => { assert!((*u).0 == x && cnt(crate::unique_arc::kani_h::inner_arc(&u)) == 1 && vrt::ga(a0 + 1) && vrt::gd(0)); core::mem::forget(u); }
            (Err(e), Err(f)) => { assert!(e == f && vrt::ga(a0) && vrt::gd(0) && vrt::glive(1)); }
            _ => { assert!(false, "deserialize outcome does not follow the value's own deserializer"); }
        }
        core::mem::forget(keep);
    } }
}

// ------------------------------------------------------------------------------------------
// C02 (and the schedule halves of C03/C08/C09/C16): ordering discipline on the ghost event trace.
// These harnesses only make sense in the shim build (build=shim): the two `use` lines that name
// core::sync::atomic in arc.rs / unique_arc.rs point at crate::vrt::atomic there.
// NO schedule is explored; see DESIGN §5 C02 for what the discipline buys under lemma L.
// ------------------------------------------------------------------------------------------
use crate::vrt::atomic as tr;

macro_rules! od_release {
    ($name:ident, $mk:expr, $pd:expr) => {
        gproof! { #[kani::unwind(12)] fn $name() {
            let n = any_count();
            let h = ($mk)(n);
            tr::reset();
            drop(h);
            assert!(!tr::od_plain_write_cuts_release_sequences(), "OD-DEFINITE a plain store to the count before any acquire, then destruction: the other owners' release sequences are cut, so their accesses do not happen-before the destruction");
            assert!(tr::od_dec_shape(), "OD-UNRECOGNISED release protocol shape");
            assert!(tr::od_dec_orders(n, $pd), "OD-dec: release-class RMW decrement; acquire before destruction; nothing after a non-final release");
            kani::cover!(n == 1, "last owner");
            kani::cover!(n > 1, "not last owner");
        } }
    };
}
// @h props=C02 build=shim fuc=Arc::drop,Arc::drop_inner,Arc::drop_slow
od_release!(c02_od_release__arc, |n| mk(Tr8::new(), n), 1);
// @h props=C02 build=shim fuc=Arc::drop,Arc::drop_inner,Arc::drop_slow
od_release!(c02_od_release__arc_slice, |n| { let a = mk_slice_u32(); set_cnt(&a, n); a }, 0);
// @h props=C02 build=shim fuc=Arc::drop,Arc::drop_inner,Arc::drop_slow
od_release!(c02_od_release__arc_dyn, |n| { let a = mk_dyn(Tr8::new()); set_cnt(&a, n); a }, 1);
// @h props=C02 build=shim fuc=OffsetArc::drop
od_release!(c02_od_release__offset, |n| Arc::into_raw_offset(mk(Tr8::new(), n)), 1);
// @h props=C02 build=shim fuc=ThinArc::drop
od_release!(c02_od_release__thin, |n| crate::thin_arc::kani_h::mk_thin_u32(n).0, 0);
// @h props=C02 build=shim fuc=ArcUnion::drop
od_release!(c02_od_release__union_first, |n| crate::ArcUnion::<Tr8, Tr16>::from_first(mk(Tr8::new(), n)), 1);
// @h props=C02 build=shim fuc=ArcUnion::drop
od_release!(c02_od_release__union_second, |n| crate::ArcUnion::<Tr8, Tr16>::from_second(mk(Tr16::new(), n)), 1);
// @h props=C02 build=shim fuc=UniqueArc::drop
gproof! { #[kani::unwind(12)] fn c02_od_release__unique() {
    let u = UniqueArc::new(Tr8::new());
    tr::reset();
    drop(u);
    assert!(!tr::od_plain_write_cuts_release_sequences(), "OD-DEFINITE a plain store to the count before any acquire, then destruction: the other owners' release sequences are cut, so their accesses do not happen-before the destruction");
    assert!(tr::od_dec_shape(), "OD-UNRECOGNISED release protocol shape");
    assert!(tr::od_dec_orders(1, 1), "OD-dec: release-class RMW decrement; acquire before destruction");
} }

macro_rules! od_clone {
    ($name:ident, $mk:expr, $clone:expr) => {
        gproof! { #[kani::unwind(12)] fn $name() {
            let n = any_count();
            let h = ($mk)(n);
            tr::reset();
            let c = ($clone)(&h);
            assert!(tr::od_inc(n), "OD-inc: exactly one atomic RMW increment, no store, nothing destroyed");
            core::mem::forget(h);
            core::mem::forget(c);
        } }
    };
}
// @h props=C02,C16 build=shim fuc=Arc::clone
od_clone!(c02_od_clone__arc, |n| mk(Tr8::new(), n), |h: &Arc<Tr8>| h.clone());
// @h props=C02 build=shim fuc=OffsetArc::clone
od_clone!(c02_od_clone__offset, |n| Arc::into_raw_offset(mk(Tr8::new(), n)), |h: &OffsetArc<Tr8>| h.clone());
// @h props=C02 build=shim fuc=OffsetArc::clone_arc
od_clone!(c02_od_clone__offset_clone_arc, |n| Arc::into_raw_offset(mk(Tr8::new(), n)), |h: &OffsetArc<Tr8>| h.clone_arc());
// @h props=C02 build=shim fuc=ArcBorrow::clone_arc
od_clone!(c02_od_clone__borrow_clone_arc, |n| mk(Tr8::new(), n), |h: &Arc<Tr8>| h.borrow_arc().clone_arc());
// @h props=C02 build=shim fuc=ThinArc::clone
od_clone!(c02_od_clone__thin, |n| crate::thin_arc::kani_h::mk_thin_u32(n).0, |h: &crate::ThinArc<u16, u32>| h.clone());
// @h props=C02,C12,C04,C03 build=shim fuc=ArcUnion::clone
od_clone!(c02_od_clone__union_second, |n| crate::ArcUnion::<Tr8, Tr16>::from_second(mk(Tr16::new(), n)), |h: &crate::ArcUnion<Tr8, Tr16>| h.clone());
// @h props=C02 build=shim tier=thorough fuc=ArcUnion::clone
od_clone!(c02_od_clone__union_first, |n| crate::ArcUnion::<Tr8, Tr16>::from_first(mk(Tr8::new(), n)), |h: &crate::ArcUnion<Tr8, Tr16>| h.clone());

// @h props=C02,C04 build=shim fuc=Arc::deref,Arc::count,Arc::strong_count,Arc::is_unique,Arc::as_ptr,Arc::eq note="reads never modify the count"
gproof! { #[kani::unwind(12)] fn c02_od_reads_do_not_modify() {
    let n = any_count();
    let a = mk(S9a8::any(), n);
    let b = Arc::new(S9a8::any());
    tr::reset();
    let _ = (*a).0[0];
    let _ = Arc::count(&a);
    let _ = Arc::strong_count(&a);
    let _ = a.is_unique();
    let _ = Arc::as_ptr(&a);
    let _ = a == b;
    let _ = a.borrow_arc();
    assert!(tr::od_read_only(), "OD-read: no modification of the count");
    core::mem::forget(a);
    core::mem::forget(b);
} }

// @h props=C03,C02 build=shim fuc=Arc::get_mut,Arc::is_unique,Arc::count note="a grant is preceded by an acquire-class load of the count that saw 1"
gproof! { #[kani::unwind(12)] fn c03_od_get_mut_grant_is_acquire() {
    let n = any_count();
    let mut a = mk(S9a8::any(), n);
    tr::reset();
    let granted = Arc::get_mut(&mut a).is_some();
    assert!(tr::od_no_modification());
    if granted { assert!(tr::od_acquire_saw_one(), "OD-unique: grant without an acquire-class load that saw 1"); }
    core::mem::forget(a);
} }

// @h props=C03,C09,C02 build=shim fuc=Arc::try_unique,Arc::is_unique
gproof! { #[kani::unwind(12)] fn c03_od_try_unique_grant_is_acquire() {
    let n = any_count();
    let a = mk(S9a8::any(), n);
    tr::reset();
    let r = Arc::try_unique(a);
    assert!(tr::od_no_modification());
    if r.is_ok() { assert!(tr::od_acquire_saw_one(), "OD-unique: grant without an acquire-class load that saw 1"); }
    core::mem::forget(r);
} }

// @h props=C03,C02 build=shim fuc=Arc::get_unique,Arc::try_as_unique
gproof! { #[kani::unwind(12)] fn c03_od_get_unique_grant_is_acquire() {
    let n = any_count();
    let mut a = mk(S9a8::any(), n);
    tr::reset();
    let granted = Arc::get_unique(&mut a).is_some();
    assert!(tr::od_no_modification());
    if granted { assert!(tr::od_acquire_saw_one(), "OD-unique: grant without an acquire-class load that saw 1"); }
    core::mem::forget(a);
} }

// @h props=C08,C03,C02 build=shim fuc=Arc::make_mut note="in-place branch needs the acquire; the copying branch releases the old handle with OD-dec"
gproof! { #[kani::unwind(12)] fn c08_od_make_mut_orders() {
    let n = any_count();
    let mut a = mk(Tr8::new(), n);
    tr::reset();
    let _ = Arc::make_mut(&mut a);
    if n == 1 {
        assert!(tr::od_no_modification() && tr::od_acquire_saw_one(), "OD-unique: in-place make_mut without an acquire-class load that saw 1");
    } else {
        // the displaced handle is released like any other: one release-class decrement that saw n, nothing after
        let mut i = 0;
        let mut subs = 0;
        while i < tr::tlen() { let e = tr::ev(i); if e.k == tr::K::Sub { subs += 1; assert!(e.seen == n && tr::release_class(e.ord)); } i += 1; }
        assert!(subs == 1);
    }
    core::mem::forget(a);
} }

// @h props=C08,C03,C02 build=shim fuc=OffsetArc::make_mut note="the OffsetArc form of the gate: writing in place needs an acquire-class load of the count that saw 1 (a relaxed strong_count == 1 fast path does not synchronise with the other owner's release)"
gproof! { #[kani::unwind(12)] fn c08_od_offset_make_mut_orders() {
    let n = any_count();
    let mut o = Arc::into_raw_offset(mk(Tr8::new(), n));
    tr::reset();
    let _ = o.make_mut();
    if n == 1 {
        assert!(tr::od_no_modification() && tr::od_acquire_saw_one(), "OD-unique: in-place OffsetArc::make_mut without an acquire-class load that saw 1");
    } else {
        let mut i = 0;
        let mut subs = 0;
        while i < tr::tlen() { let e = tr::ev(i); if e.k == tr::K::Sub { subs += 1; assert!(e.seen == n && tr::release_class(e.ord)); } i += 1; }
        assert!(subs == 1);
    }
    core::mem::forget(o);
} }

// @h props=C09,C02 build=shim fuc=Arc::try_unwrap,UniqueArc::into_inner note="moving the value out is preceded by an acquire-class load that saw 1; exactly one dealloc after it"
gproof! { #[kani::unwind(12)] fn c09_od_try_unwrap_orders() {
    let n = any_count();
    let a = mk(Tr8::new(), n);
    tr::reset();
    let r = Arc::try_unwrap(a);
    assert!(tr::od_no_modification());
    if r.is_ok() {
        assert!(tr::od_acquire_saw_one(), "OD-unique: value moved out without an acquire-class load that saw 1");
        let mut i = 0; let mut acq = false; let mut de = 0;
        while i < tr::tlen() { let e = tr::ev(i); if e.k == tr::K::Load && tr::acquire_class(e.ord) && e.seen == 1 { acq = true; } if e.k == tr::K::Dealloc { de += 1; assert!(acq); } i += 1; }
        assert!(de == 1);
    } else {
        assert!(tr::od_read_only());
    }
    core::mem::forget(r);
} }

// @h props=C16,C02 build=shim kind=panic site="VRT abort reached" fuc=Arc::clone note="the overflow test is on the OLD value of a single RMW: the count cannot have wrapped before the test (std::process::abort stubbed by a trace-checking stand-in in this harness only)"
#[kani::proof]
#[kani::should_panic]
#[kani::unwind(12)]
#[kani::stub(std::process::abort, crate::vrt::ghost_abort)]
#[kani::stub(alloc::alloc::alloc, crate::vrt::ghost_alloc)]
#[kani::stub(alloc::alloc::dealloc, crate::vrt::ghost_dealloc)]
#[kani::stub(alloc::alloc::dealloc_nonnull, crate::vrt::ghost_dealloc_nn)]
#[kani::stub(alloc::alloc::realloc, crate::vrt::ghost_realloc)]
#[kani::stub(alloc::alloc::realloc_nonnull, crate::vrt::ghost_realloc_nn)]
#[kani::stub(alloc::alloc::alloc_zeroed, crate::vrt::ghost_alloc_zeroed)]
fn c16_od_clone_overflow_single_rmw() {
    let n = vrt::overflow_count();
    let a = mk(S1::any(), n);
    tr::reset();
    unsafe { vrt::OD_N = n; }
    let b = a.clone();
    kani::cover!(true, "RETURNED");
    core::mem::forget(a);
    core::mem::forget(b);
}

// ------------------------------------------------------------------------------------------
// C11: handle widths and the null niche
// ------------------------------------------------------------------------------------------
// @h props=C11 fuc=Arc,OffsetArc,ThinArc,ArcBorrow,UniqueArc,ArcUnion note="one pointer wide (two for slice / str / trait-object Arcs), null niche available to Option"
gproof! { fn c11_handle_widths_and_niche() {
    use core::mem::size_of;
    let w = size_of::<usize>();
    assert!(size_of::<Arc<S9a8>>() == w && size_of::<Option<Arc<S9a8>>>() == w);
    assert!(size_of::<Arc<Z>>() == w && size_of::<Option<Arc<Z>>>() == w);
    assert!(size_of::<OffsetArc<S9a8>>() == w && size_of::<Option<OffsetArc<S9a8>>>() == w);
    assert!(size_of::<crate::ThinArc<u16, u32>>() == w && size_of::<Option<crate::ThinArc<u16, u32>>>() == w);
    assert!(size_of::<ArcBorrow<'static, S9a8>>() == w && size_of::<Option<ArcBorrow<'static, S9a8>>>() == w);
    assert!(size_of::<UniqueArc<S9a8>>() == w && size_of::<Option<UniqueArc<S9a8>>>() == w);
    assert!(size_of::<crate::ArcUnion<S1, S9a8>>() == w && size_of::<Option<crate::ArcUnion<S1, S9a8>>>() == w);
    assert!(size_of::<Arc<[u32]>>() == 2 * w && size_of::<Option<Arc<[u32]>>>() == 2 * w);
    assert!(size_of::<Arc<str>>() == 2 * w && size_of::<Option<Arc<str>>>() == 2 * w);
    assert!(size_of::<Arc<dyn Probe>>() == 2 * w && size_of::<Option<Arc<dyn Probe>>>() == 2 * w);
    assert!(size_of::<UniqueArc<[u32]>>() == 2 * w && size_of::<ArcBorrow<'static, [u32]>>() == 2 * w);
    let keep = Arc::new(0u8);
    core::mem::forget(keep);
} }

// ------------------------------------------------------------------------------------------
// C16 in the no_std configuration: crate::abort is the double-panic routine in lib.rs
// ------------------------------------------------------------------------------------------
// @h props=C16 features=none kind=panic site="src/lib.rs.* in abort" fuc=Arc::clone,crate::abort note="no_std build: the refusal site is the panic inside crate::abort"
gpanic! { fn c16_nostd_arc_clone_overflow_reaches_abort() {
    let n = vrt::overflow_count();
    let a = mk(S1::any(), n);
    let b = a.clone();
    core::mem::forget(a);
    core::mem::forget(b);
} }

// @h props=C16 features=none fuc=Arc::clone note="no_std build: clones below the limit add exactly one"
gproof! { fn c16_nostd_arc_clone_below_limit_adds_one() {
    let n = any_count();
    let a = mk(S1::any(), n);
    let b = a.clone();
    assert!(cnt(&a) == n + 1);
    core::mem::forget(a);
    core::mem::forget(b);
} }

// ------------------------------------------------------------------------------------------
// unsize feature: CoerciblePtr keeps block and count (C01, C05 release after unsizing)
// ------------------------------------------------------------------------------------------
#[cfg(feature = "unsize")]
pub(crate) mod uns_h {
    use crate::arc::Arc;
    use crate::unique_arc::UniqueArc;
    use crate::vrt;
    use crate::vrt::{any_count, base, cnt, cw, data, mk, rd, set_cnt, Probe, Tr8};
    use unsize::{CoerceUnsize, Coercion};

    // @h props=C01,C04,C05,C11 mod=uns_h features=unsize,arc-swap fuc=Arc::replace_ptr,Arc::as_sized_ptr note="Arc<[u8;4]> -> Arc<[u8]>"
    gproof! { fn c01_unsize_arc_array_to_slice() {
        let n = any_count();
        let x = mk([1u8, 2, 3, 4], n);
        let (b0, d0) = (base(&x), data(&x));
        let y: Arc<[u8]> = x.unsize(Coercion::to_slice());
        assert!(base(&y) == b0 && data(&y) == d0 && cnt(&y) == n && y.len() == 4 && y[3] == 4);
        assert!(vrt::valid(&y) && vrt::ga(1) && vrt::gd(0));
        if n == 1 { drop(y); assert!(vrt::gd(1) && vrt::glive(0)); } else { core::mem::forget(y); }
    } }

    // @h props=C01,C05 mod=uns_h features=unsize,arc-swap fuc=Arc::replace_ptr note="Arc<Tr8> -> Arc<dyn Probe>: destructor and layout still right after unsizing"
    gproof! { fn c01_unsize_arc_to_dyn_then_release() {
        let n = any_count();
        let x = mk(Tr8::new(), n);
        let (b0, id, c0) = (base(&x), x.id, cw(&x));
        let y: Arc<dyn Probe> = x.unsize(unsafe { Coercion::new({ fn coerce<'lt>(p: *const Tr8) -> *const (dyn Probe + 'lt) { p } coerce }) });
        assert!(base(&y) == b0 && cnt(&y) == n && vrt::valid(&y));
        drop(y);
        if n == 1 { assert!(vrt::drops() == 1 && vrt::dropped(id) && vrt::gd(1)); } else { assert!(vrt::drops() == 0 && rd(c0) == n - 1 && vrt::gd(0)); }
    } }

    // @h props=C01,C03,C04 mod=uns_h features=unsize,arc-swap fuc=UniqueArc::replace_ptr
    gproof! { fn c01_unsize_unique_array_to_slice() {
        let u = UniqueArc::new([7u8, 8, 9]);
        let b0 = base(crate::unique_arc::kani_h::inner_arc(&u));
        let v: UniqueArc<[u8]> = u.unsize(Coercion::to_slice());
        let a = crate::unique_arc::kani_h::inner_arc(&v);
        assert!(base(a) == b0 && cnt(a) == 1 && v.len() == 3 && v[2] == 9);
        drop(v);
        assert!(vrt::gd(1) && vrt::glive(0));
    } }

    // @h props=C01,C04 mod=uns_h features=unsize,arc-swap fuc=ArcBorrow::replace_ptr
    gproof! { fn c01_unsize_borrow_keeps_count() {
        let n = any_count();
        let x = mk([1u8, 2, 3, 4], n);
        let b = x.borrow_arc();
        let s: crate::ArcBorrow<[u8]> = b.unsize(Coercion::to_slice());
        assert!((vrt::bptr(&s)).len() == 4 && cnt(&x) == n && vrt::addr(vrt::bptr(&s)) == data(&x));
        core::mem::forget(x);
    } }
}

// ------------------------------------------------------------------------------------------
// Provided trait methods are entry points too: Clone::clone_from (default `*self = source.clone()`).
// After `a.clone_from(&b)`: a is one more owner of b's allocation, a's previous allocation lost exactly
// one owner (and is destroyed/freed iff that was the last); on the SAME allocation nothing changes.
// ------------------------------------------------------------------------------------------
// @h props=C01,C04 fuc=Arc::clone_from,Arc::clone,Arc::drop
gproof! { fn c01_arc_clone_from__other_block() {
    let (n, m) = (any_count(), any_count());
    let mut a = mk(Tr8::new(), n);
    let b = mk(Tr8::new(), m);
    let (ba, bb, ca, cb, ida, idb) = (base(&a), base(&b), cw(&a), cw(&b), a.id, b.id);
    a.clone_from(&b);
    assert!(base(&a) == bb && a.id == idb && rd(cb) == m + 1 && vrt::clones() == 0 && vrt::ga(2));
    if n == 1 {
        assert!(!vrt::g_live(ba) && vrt::dropped(ida) && vrt::drops() == 1 && vrt::gd(1));
    } else {
        assert!(rd(ca) == n - 1 && vrt::glive_at(ba) && vrt::drops() == 0 && vrt::gd(0));
    }
    kani::cover!(n == 1, "previous allocation destroyed");
    core::mem::forget(a);
    core::mem::forget(b);
} }
// @h props=C01,C04 fuc=Arc::clone_from note="source and destination already share the allocation"
gproof! { fn c01_arc_clone_from__same_block() {
    let n = any_count();
    kani::assume(n > 1);
    let mut a = mk(Tr8::new(), n);
    let b = core::mem::ManuallyDrop::new(unsafe { core::ptr::read(&a) });
    let (ba, ca) = (base(&a), cw(&a));
    a.clone_from(&b);
    assert!(base(&a) == ba && rd(ca) == n && vrt::drops() == 0 && vrt::clones() == 0 && vrt::ga(1) && vrt::gd(0));
    core::mem::forget(a);
} }
// @h props=C01,C04 fuc=OffsetArc::clone_from,OffsetArc::clone,OffsetArc::drop
gproof! { fn c01_offset_clone_from__other_block() {
    let (n, m) = (any_count(), any_count());
    let mut a = Arc::into_raw_offset(mk(Tr8::new(), n));
    let b = Arc::into_raw_offset(mk(Tr8::new(), m));
    let (ba, bb, ca, cb, ida) = (vrt::obase(&a), vrt::obase(&b), vrt::ocw(&a), vrt::ocw(&b), a.id);
    a.clone_from(&b);
    assert!(vrt::obase(&a) == bb && rd(cb) == m + 1 && vrt::ga(2));
    if n == 1 {
        assert!(!vrt::g_live(ba) && vrt::dropped(ida) && vrt::drops() == 1 && vrt::gd(1));
    } else {
        assert!(rd(ca) == n - 1 && vrt::glive_at(ba) && vrt::drops() == 0 && vrt::gd(0));
    }
    core::mem::forget(a);
    core::mem::forget(b);
} }

// ------------------------------------------------------------------------------------------
// Check mode (#[kani::proof_for_contract]): requires assumed, body executed, ensures asserted, and
// CBMC's frame instrumentation enforces that nothing outside an (empty) modifies set is written.
// Only for functions that never free (Kani 0.68 cannot express `frees`), thorough tier.
// ------------------------------------------------------------------------------------------
// @h props=C04,C03 mode=check fuc=Arc::count
#[kani::proof_for_contract(Arc::<S9a8>::count)]
fn c04_chk_arc_count() {
    vrt::ghost_reset();
    let a = mk(S9a8::any(), any_count());
    let _ = Arc::count(&a);
    kani::cover!(true, "END");
    core::mem::forget(a);
}
// @h props=C04 mode=check fuc=Arc::strong_count
#[kani::proof_for_contract(Arc::<S9a8>::strong_count)]
fn c04_chk_arc_strong_count() {
    vrt::ghost_reset();
    let a = mk(S9a8::any(), any_count());
    let _ = Arc::strong_count(&a);
    kani::cover!(true, "END");
    core::mem::forget(a);
}
// @h props=C03 mode=check fuc=Arc::is_unique
#[kani::proof_for_contract(Arc::<S9a8>::is_unique)]
fn c03_chk_arc_is_unique() {
    vrt::ghost_reset();
    let a = mk(S9a8::any(), any_count());
    let _ = a.is_unique();
    kani::cover!(true, "END");
    core::mem::forget(a);
}
// @h props=C11 mode=check fuc=Arc::as_ptr
#[kani::proof_for_contract(Arc::<S16a16>::as_ptr)]
fn c11_chk_arc_as_ptr() {
    vrt::ghost_reset();
    let a = mk(S16a16::any(), any_count());
    let _ = Arc::as_ptr(&a);
    kani::cover!(true, "END");
    core::mem::forget(a);
}
// @h props=C11 mode=check fuc=Arc::heap_ptr
#[kani::proof_for_contract(Arc::<S16a16>::heap_ptr)]
fn c11_chk_arc_heap_ptr() {
    vrt::ghost_reset();
    let a = mk(S16a16::any(), any_count());
    let _ = a.heap_ptr();
    kani::cover!(true, "END");
    core::mem::forget(a);
}
// @h props=C11,C05,C12 mode=check fuc=ArcInner::offset_of_data
#[kani::proof_for_contract(ArcInner::<S64a64>::offset_of_data)]
fn c11_chk_offset_of_data() {
    vrt::ghost_reset();
    let a = Arc::new(S64a64::any());
    let _ = unsafe { ArcInner::<S64a64>::offset_of_data(Arc::as_ptr(&a)) };
    kani::cover!(true, "END");
    core::mem::forget(a);
}
// @h props=C01,C04,C11 mode=check fuc=Arc::into_raw
#[kani::proof_for_contract(Arc::<S16a16>::into_raw)]
fn c11_chk_arc_into_raw() {
    vrt::ghost_reset();
    let a = mk(S16a16::any(), any_count());
    let _ = Arc::into_raw(a);
    kani::cover!(true, "END");
}
