// child module of src/arc.rs (sees drop_inner, drop_slow, must_be_unique, try_allocate_for_layout,
// offset_of_data). One library operation per harness; the pre-state is an allocation whose count
// word is an arbitrary n in [1, isize::MAX] (DESIGN §3.3/§4.4).
#![allow(dead_code, unused_imports, unused_unsafe, static_mut_refs, unused_variables, unused_mut)]
use crate::arc::{Arc, ArcInner};
use crate::unique_arc::UniqueArc;
use crate::vrt;
use crate::vrt::{any_count, base, cnt, cnt_at, data, set_cnt, Probe, Tr, Tr16, Tr64, Tr8, Zd, S1, S16a16, S64a64, S9a8, Z};
use crate::{ArcBorrow, OffsetArc};

// ------------------------------------------------------------------------------------------
// C04 accessor agreement, C01/C04 clone and release on a plain Arc<T>
// ------------------------------------------------------------------------------------------

// @h props=C04,C03 fuc=Arc::count,Arc::strong_count,Arc::is_unique
gproof! { fn c04_arc_count_accessors() {
    let n = any_count();
    let a = Arc::new(S9a8::any());
    set_cnt(&a, n);
    assert!(Arc::count(&a) == n);
    assert!(Arc::strong_count(&a) == n);
    assert!(a.is_unique() == (n == 1));
    assert!(cnt(&a) == n);
    core::mem::forget(a);
} }

// @h props=C01,C04,C16 fuc=Arc::clone
gproof! { fn c01_arc_clone_tr8() {
    let n = any_count();
    let a = Arc::new(Tr8::new());
    let (id, v) = (a.id, a.v);
    set_cnt(&a, n);
    let b = a.clone();
    assert!(cnt(&a) == n + 1 && Arc::count(&b) == n + 1);
    assert!(base(&b) == base(&a));
    assert!(b.id == id && b.v == v && a.id == id);
    assert!(vrt::drops() == 0 && vrt::clones() == 0);
    assert!(vrt::ga(1) && vrt::gd(0));
    core::mem::forget(a);
    core::mem::forget(b);
} }

// @h props=C01,C04,C05 fuc=Arc::drop,Arc::drop_inner,Arc::drop_slow
gproof! { fn c01_arc_drop_tr8() {
    let n = any_count();
    let a = Arc::new(Tr8::new());
    let id = a.id;
    set_cnt(&a, n);
    let b = base(&a);
    drop(a);
    if n == 1 {
        assert!(vrt::drops() == 1 && vrt::dropped(id));
        assert!(vrt::gd(1) && vrt::glive(0));
    } else {
        assert!(vrt::drops() == 0 && !vrt::dropped(id));
        assert!(vrt::gd(0) && vrt::glive_at(b));
        assert!(cnt_at(b) == n - 1);
        assert!(unsafe { (*((b + 8) as *const Tr8)).id } == id);
    }
    kani::cover!(n == 1, "last owner");
    kani::cover!(n > 1, "not last owner");
} }
