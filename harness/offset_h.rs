// child module of src/offset_arc.rs
#![allow(dead_code, unused_imports, unused_unsafe, static_mut_refs, unused_variables, unused_mut)]
use crate::arc::Arc;
use crate::arc_borrow::ArcBorrow;
use crate::offset_arc::OffsetArc;
use crate::vrt;
use crate::vrt::{any_count, base, cnt, cw, data, mk, rd, obase, ocnt, set_cnt, Tr, Tr16, Tr64, Tr8, Zd, S1, S16a16, S64a64, S9a8, Z};

// @h props=C04 fuc=OffsetArc::strong_count,OffsetArc::with_arc
gproof! { fn c04_offset_strong_count() {
    let n = any_count();
    let o = Arc::into_raw_offset(mk(S16a16::any(), n));
    assert!(OffsetArc::strong_count(&o) == n && ocnt(&o) == n);
    core::mem::forget(o);
} }

macro_rules! h_offset_clone {
    ($name:ident, $T:ty, $v:expr) => {
        gproof! { fn $name() {
            let n = any_count();
            let a = mk($v, n);
            let (b0, d0, c0) = (base(&a), data(&a), cw(&a));
            let o = Arc::into_raw_offset(a);
            let p0 = vrt::p_snap();
            let o2 = o.clone();
            assert!(rd(c0) == n + 1 && obase(&o2) == b0);
            assert!(vrt::addr(&*o2 as *const $T) == d0 && vrt::addr(&*o as *const $T) == d0);
            assert!(unsafe { core::mem::transmute_copy::<OffsetArc<$T>, usize>(&o2) } == d0);
            assert!(vrt::p_same(p0) && vrt::ga(1) && vrt::gd(0));
            core::mem::forget(o);
            core::mem::forget(o2);
        } }
    };
}
// @h props=C01,C04,C16,C03,C08,C09 fuc=OffsetArc::clone,OffsetArc::clone_arc,OffsetArc::with_arc
h_offset_clone!(c01_offset_clone__tr16, Tr16, Tr16::new());
// @h props=C01,C04,C16 fuc=OffsetArc::clone,OffsetArc::clone_arc,OffsetArc::with_arc
h_offset_clone!(c01_offset_clone__zst, Z, Z);
// @h props=C01,C04,C16 tier=thorough fuc=OffsetArc::clone,OffsetArc::clone_arc,OffsetArc::with_arc
h_offset_clone!(c01_offset_clone__s1, S1, S1::any());

// @h props=C01,C04,C16,C03,C08,C09 fuc=OffsetArc::clone_arc,OffsetArc::with_arc
gproof! { fn c01_offset_clone_arc__tr8() {
    let n = any_count();
    let a = mk(Tr8::new(), n);
    let (b0, id, c0) = (base(&a), a.id, cw(&a));
    let o = Arc::into_raw_offset(a);
    let c = o.clone_arc();
    assert!(base(&c) == b0 && cnt(&c) == n + 1 && c.id == id && o.id == id);
    assert!(vrt::drops() == 0 && vrt::clones() == 0 && vrt::ga(1) && vrt::gd(0));
    core::mem::forget(o);
    core::mem::forget(c);
} }

macro_rules! h_offset_drop {
    ($name:ident, $T:ty, $v:expr, $nd:expr) => {
        gproof! { fn $name() {
            let n = any_count();
            let a = mk($v, n);
            let (b0, c0) = (base(&a), cw(&a));
            let o = Arc::into_raw_offset(a);
            let d0 = vrt::drops();
            drop(o);
            if n == 1 {
                assert!(vrt::drops() == d0 + $nd && vrt::gd(1) && !vrt::g_live(b0));
            } else {
                assert!(vrt::drops() == d0 && vrt::gd(0) && vrt::glive_at(b0) && rd(c0) == n - 1);
            }
            kani::cover!(n == 1, "last owner");
            kani::cover!(n > 1, "not last owner");
        } }
    };
}
// @h props=C01,C04,C05 fuc=OffsetArc::drop,Arc::from_raw_offset,Arc::from_raw
h_offset_drop!(c01_offset_drop__tr16, Tr16, Tr16::new(), 1);
// @h props=C01,C04,C05 fuc=OffsetArc::drop,Arc::from_raw_offset,Arc::from_raw
h_offset_drop!(c01_offset_drop__tr64, Tr64, Tr64::new(), 1);
// @h props=C01,C05 fuc=OffsetArc::drop,Arc::from_raw_offset,Arc::from_raw
h_offset_drop!(c01_offset_drop__zst, Z, Z, 0);
// @h props=C01,C05 fuc=OffsetArc::drop,Arc::from_raw_offset,Arc::from_raw
h_offset_drop!(c01_offset_drop__s1, S1, S1::any(), 0);

// @h props=C01,C04 fuc=OffsetArc::with_arc,Arc::clone,Arc::drop
gproof! { fn c04_offset_with_arc_callback() {
    let n = any_count();
        let a = mk(Tr8::new(), n);
    let (b0, id, c0) = (base(&a), a.id, cw(&a));
    let o = Arc::into_raw_offset(a);
    let keep: bool = kani::any();
    let seen = o.with_arc(|t| {
        let inside = Arc::count(t);
        assert!(base(t) == b0 && t.id == id);
        let c = t.clone();
        assert!(Arc::count(t) == inside + 1);
        if keep { core::mem::forget(c); } else { drop(c); }
        inside
    });
    assert!(seen == n && rd(c0) == if keep { n + 1 } else { n });
    assert!(vrt::drops() == 0 && vrt::ga(1) && vrt::gd(0));
    core::mem::forget(o);
} }

// @h props=C04,C11 fuc=OffsetArc::borrow_arc,OffsetArc::deref
gproof! { fn c11_offset_bits_and_borrow() {
    let n = any_count();
    let a = mk(S64a64::any(), n);
    let (b0, d0, c0) = (base(&a), data(&a), cw(&a));
    let o = Arc::into_raw_offset(a);
    assert!(core::mem::size_of::<OffsetArc<S64a64>>() == core::mem::size_of::<usize>());
    assert!(core::mem::size_of::<Option<OffsetArc<S64a64>>>() == core::mem::size_of::<usize>());
    assert!(unsafe { core::mem::transmute_copy::<OffsetArc<S64a64>, usize>(&o) } == d0);
    let b = o.borrow_arc();
    assert!(unsafe { core::mem::transmute_copy::<ArcBorrow<S64a64>, usize>(&b) } == d0);
    assert!(vrt::addr(&*o as *const S64a64) == d0 && rd(c0) == n);
    core::mem::forget(o);
} }

// @h props=C08,C03 fuc=OffsetArc::make_mut,Arc::make_mut
gproof! { fn c08_offset_make_mut__tr8() {
    let n = any_count();
    let a = mk(Tr8::new(), n);
    let (b0, d0, id0, v0, c0) = (base(&a), data(&a), a.id, a.v, cw(&a));
    let pp0 = &*a as *const Tr8;
    let mut o = Arc::into_raw_offset(a);
    let w: u8 = kani::any();
    {
        let r = o.make_mut();
        assert!(r.v == v0);
        r.v = w;
    }
    assert!(o.v == w && ocnt(&o) == 1);
    if n == 1 {
        assert!(obase(&o) == b0 && o.id == id0 && vrt::clones() == 0 && vrt::ga(1) && vrt::gd(0));
    } else {
        assert!(obase(&o) != b0 && vrt::clones() == 1 && vrt::ga(2) && vrt::gd(0));
        assert!(rd(c0) == n - 1 && vrt::glive_at(b0));
        assert!(unsafe { (*pp0).v == v0 && (*pp0).id == id0 });
    }
    assert!(vrt::drops() == 0);
    kani::cover!(n == 1, "in place");
    kani::cover!(n > 1, "copied");
    core::mem::forget(o);
} }

// @h props=C16 kind=panic site="abort" fuc=OffsetArc::clone
gpanic! { fn c16_offset_clone_overflow_aborts() {
    let n = vrt::overflow_count();
    let o = Arc::into_raw_offset(mk(S1::any(), n));
    let o2 = o.clone();
    core::mem::forget(o);
    core::mem::forget(o2);
} }

// @h props=C16 kind=panic site="abort" fuc=OffsetArc::clone_arc
gpanic! { fn c16_offset_clone_arc_overflow_aborts() {
    let n = vrt::overflow_count();
    let o = Arc::into_raw_offset(mk(S1::any(), n));
    let c = o.clone_arc();
    core::mem::forget(o);
    core::mem::forget(c);
} }

// @h props=C16 kind=panic site="abort" fuc=Arc::with_raw_offset_arc,OffsetArc::clone note="clone inside a borrow callback"
gpanic! { fn c16_clone_inside_with_raw_offset_arc_overflow_aborts() {
    let n = vrt::overflow_count();
    let a = mk(S1::any(), n);
    a.with_raw_offset_arc(|o| { let c = o.clone(); core::mem::forget(c); });
    core::mem::forget(a);
} }

// @h props=C14,C04 fuc=OffsetArc::eq,OffsetArc::ne,OffsetArc::fmt
gproof! { fn c14_offset_eq_ne_debug_delegate() {
    use crate::vrt::{Ip, OP_DEBUG};
    use core::cmp::Ordering as O;
    let (n, m) = (any_count(), any_count());
    let a = Arc::into_raw_offset(mk(Ip(kani::any()), n));
    let b = Arc::into_raw_offset(mk(Ip(kani::any()), m));
    let (da, db) = (vrt::addr(&*a as *const Ip), vrt::addr(&*b as *const Ip));
    vrt::ip_setup(da, db);
    assert!((a == b) == (vrt::ip_ord() == Some(O::Equal)));
    assert!((a != b) == (vrt::ip_ord() != Some(O::Equal)));
    assert!(vrt::ip_consulted());
    let before = vrt::ip_total();
    let ok = vrt::debug_ok(&a);
    assert!(vrt::ip_calls(OP_DEBUG) == 1 && vrt::ip_total() == before + 1 && vrt::ip_args(da, unsafe { vrt::FMT_ADDR }) && ok == unsafe { vrt::IP_FMT_OK });
    assert!(ocnt(&a) == n && ocnt(&b) == m);
    core::mem::forget(a);
    core::mem::forget(b);
} }

// @h props=C14 fuc=OffsetArc::eq,OffsetArc::ne note="two OffsetArcs to the SAME allocation, payload possibly not equal to itself: == and != stay each other's negation (and equal the value's answer, or 'equal' under the same-allocation licence)"
gproof! { fn c14_offset_same_allocation_eq_ne_consistent() {
    use crate::vrt::Ip;
    use core::cmp::Ordering as O;
    let n = any_count();
    let a = Arc::into_raw_offset(mk(Ip(kani::any()), n));
    let b = a.clone();
    let d = vrt::addr(&*a as *const Ip);
    vrt::ip_setup(d, d);
    let (e, ne) = (a == b, a != b);
    assert!(e != ne);
    assert!(e == (vrt::ip_ord() == Some(O::Equal)) || e);
    assert!(unsafe { !vrt::IP_FOREIGN });
    core::mem::forget(a);
    core::mem::forget(b);
} }

// ---- check mode (proof_for_contract) ----
// @h props=C04 mode=check fuc=OffsetArc::strong_count
#[kani::proof_for_contract(OffsetArc::<S9a8>::strong_count)]
fn c04_chk_offset_strong_count() {
    vrt::ghost_reset();
    let o = Arc::into_raw_offset(mk(S9a8::any(), any_count()));
    let _ = OffsetArc::strong_count(&o);
    kani::cover!(true, "END");
    core::mem::forget(o);
}
// @h props=C04,C11 mode=check fuc=OffsetArc::borrow_arc
#[kani::proof_for_contract(OffsetArc::<S9a8>::borrow_arc)]
fn c11_chk_offset_borrow_arc() {
    vrt::ghost_reset();
    let o = Arc::into_raw_offset(mk(S9a8::any(), any_count()));
    let _ = o.borrow_arc();
    kani::cover!(true, "END");
    core::mem::forget(o);
}

// @h props=C11,C08 fuc=OffsetArc::make_mut note="after make_mut (shared case: the handle was redirected) the OffsetArc's bit pattern is still the value's address"
gproof! { fn c11_offset_bits_after_make_mut() {
    let n = any_count();
    kani::assume(n > 1);
    let mut o = Arc::into_raw_offset(mk(vrt::Cc(kani::any()), n));
    let r = o.make_mut() as *mut vrt::Cc as usize;
    let bits = unsafe { core::mem::transmute_copy::<OffsetArc<vrt::Cc>, usize>(&o) };
    assert!(bits == r && vrt::addr(&*o as *const vrt::Cc) == r);
    assert!(OffsetArc::strong_count(&o) == 1);
    core::mem::forget(o);
} }
