// child module of src/thin_arc.rs: sees ThinArc.ptr, thin_to_thick, with_protected_arc,
// into_thin_unchecked, from_protected, from_unprotected_unchecked.
#![allow(dead_code, unused_imports, unused_unsafe, static_mut_refs, unused_variables, unused_mut)]
use crate::arc::{Arc, ArcInner};
use crate::header::{HeaderSlice, HeaderSliceWithLengthProtected, HeaderSliceWithLengthUnchecked, HeaderWithLength};
use crate::thin_arc::ThinArc;
use crate::vrt;
use crate::vrt::{any_count, base, cnt, cw, data, mk, rd, set_cnt, Tr, Tr16, Tr8, S1, S16a16};
use alloc::vec::Vec;

pub(crate) fn tbase<H, T>(t: &ThinArc<H, T>) -> usize {
    t.ptr.as_ptr() as *const u8 as usize
}
pub(crate) fn tcw<H, T>(t: &ThinArc<H, T>) -> vrt::Cw {
    t.ptr.as_ptr() as *const usize
}
pub(crate) fn tcnt<H, T>(t: &ThinArc<H, T>) -> usize {
    vrt::rd(tcw(t))
}
pub(crate) fn set_tcnt<H, T>(t: &ThinArc<H, T>, n: usize) {
    unsafe { *(tcw(t) as *mut usize) = n }
}
/// the recorded length word, located by the repr(C) rules (NOT through the library's own thin
/// pointee type, whose alignment is part of what is being checked): the value starts at
/// max(8, align HeaderWithLength<H>, align T); `length` follows `header: H` at round_up(size H, 8)
pub(crate) fn rlen<H, T>(t: &ThinArc<H, T>) -> usize {
    let off = (tdata(t) - tbase(t)) + (core::mem::size_of::<H>() + 7) / 8 * 8;
    unsafe { ((t.ptr.as_ptr() as *const u8).wrapping_add(off) as *const usize).read() }
}
/// where the HeaderSlice value lives (spec: base + max(8, align of the value))
pub(crate) fn tdata<H, T>(t: &ThinArc<H, T>) -> usize {
    let ah = core::mem::align_of::<HeaderWithLength<H>>();
    let at = core::mem::align_of::<T>();
    tbase(t) + vrt::spec_off(if ah > at { ah } else { at })
}
/// representation invariant: live block with count >= 1 that was sized for exactly `rlen` elements
pub(crate) fn tvalid<H, T>(t: &ThinArc<H, T>) -> bool {
    let want = vrt::spec_hs::<HeaderWithLength<H>, T>(rlen(t));
    let got = vrt::g_req(tbase(t));
    tcnt(t) >= 1 && (!vrt::g_on() || (vrt::g_live(tbase(t)) && got.0 as u128 == want.0 && got.1 == want.1))
}

// ------------------------------------------------------------------------------------------
// witnesses: ThinArc<u16, u32> (padding after the header), symbolic length <= 4, symbolic contents
// ------------------------------------------------------------------------------------------
pub(crate) const TL: usize = 4;
pub(crate) fn mk_thin_u32(n: usize) -> (ThinArc<u16, u32>, usize, u16, [u32; TL]) {
    let buf: [u32; TL] = kani::any();
    let len: usize = kani::any();
    kani::assume(len <= TL);
    let h: u16 = kani::any();
    let t = ThinArc::from_header_and_slice(h, &buf[..len]);
    set_tcnt(&t, n);
    (t, len, h, buf)
}

// @h props=C10,C06,C05,C11 fuc=ThinArc::from_header_and_slice,Arc::into_thin,Arc::from_header_and_slice,HeaderWithLength::new
gproof! { fn c10_thin_from_slice_repr__u16_u32() {
    let (t, len, h, buf) = mk_thin_u32(1);
    assert!(rlen(&t) == len && t.slice.len() == len && t.header.length == len && t.header.header == h);
    let i: usize = kani::any();
    kani::assume(i < TL);
    if i < len { assert!(t.slice[i] == buf[i]); }
    assert!(tvalid(&t) && tcnt(&t) == 1 && vrt::ga(1) && vrt::gd(0));
    assert!(vrt::g_last_is(tbase(&t), vrt::spec_hs::<HeaderWithLength<u16>, u32>(len)));
    assert!(core::mem::size_of::<ThinArc<u16, u32>>() == core::mem::size_of::<usize>());
    assert!(core::mem::size_of::<Option<ThinArc<u16, u32>>>() == core::mem::size_of::<usize>());
    core::mem::forget(t);
} }

// @h props=C10,C06,C05 fuc=ThinArc::from_header_and_slice,Arc::into_thin note="over-aligned element, byte header"
gproof! { fn c10_thin_from_slice_repr__u8_a16() {
    let buf: [S16a16; 3] = [S16a16::any(), S16a16::any(), S16a16::any()];
    let len: usize = kani::any();
    kani::assume(len <= 3);
    let h: u8 = kani::any();
    let t = ThinArc::from_header_and_slice(h, &buf[..len]);
    assert!(rlen(&t) == len && t.slice.len() == len && t.header.header == h);
    let i: usize = kani::any();
    kani::assume(i < 3);
    if i < len { assert!(t.slice[i] == buf[i]); assert!(vrt::addr(&t.slice[i] as *const S16a16) % 16 == 0); }
    assert!(tvalid(&t) && tcnt(&t) == 1);
    assert!(vrt::g_last_is(tbase(&t), vrt::spec_hs::<HeaderWithLength<u8>, S16a16>(len)));
    drop(t);
    assert!(vrt::gd(1) && vrt::glive(0));
} }

// @h props=C10,C06 bounded=len<=3 fuc=ThinArc::from_header_and_iter,Arc::from_header_and_iter,Arc::into_thin
gproof! { #[kani::unwind(5)] fn c10_thin_from_iter_repr__tr() {
    let len: usize = kani::any();
    kani::assume(len <= 3);
    let hd = Tr8::new();
    let hid = hd.id;
    let t = ThinArc::from_header_and_iter(hd, vrt::TrIter::new(len));
    assert!(rlen(&t) == len && t.slice.len() == len && t.header.header.id == hid);
    let mut i = 0;
    while i < len { assert!(t.slice[i].id == hid + 1 + i as u8); i += 1; }
    assert!(tvalid(&t) && tcnt(&t) == 1 && vrt::drops() == 0 && vrt::clones() == 0);
    drop(t);
    assert!(vrt::drops() == len + 1 && vrt::gd(1) && vrt::glive(0));
} }

// @h props=C10,C11 fuc=ThinArc::deref,ThinArc::with_arc,thin_to_thick,Arc::from_protected
gproof! { fn c10_thin_deref_matches_fat() {
    let n = any_count();
    let (t, len, h, buf) = mk_thin_u32(n);
    let (ph, ps, pl) = (vrt::addr(&t.header.header as *const u16), vrt::addr(t.slice.as_ptr()), t.slice.len());
    assert!(vrt::addr(&*t as *const HeaderSliceWithLengthUnchecked<u16, u32>) == tdata(&t));
    let b0 = tbase(&t);
    let same = t.with_arc(|a| {
        base(a) == b0 && vrt::addr(&a.header.header as *const u16) == ph && vrt::addr(a.slice.as_ptr()) == ps
            && a.slice.len() == pl && a.header.length == pl
    });
    assert!(same && pl == len && tcnt(&t) == n);
    core::mem::forget(t);
} }

// @h props=C01,C04,C16,C03,C08,C09 fuc=ThinArc::clone,ThinArc::with_protected_arc,Arc::protected_into_thin
gproof! { fn c01_thin_clone() {
    let n = any_count();
    let (t, len, h, buf) = mk_thin_u32(n);
    let (b0, c0) = (tbase(&t), tcw(&t));
    let t2 = t.clone();
    assert!(rd(c0) == n + 1 && tbase(&t2) == b0 && rlen(&t2) == len && t2.header.header == h);
    assert!(vrt::ga(1) && vrt::gd(0));
    core::mem::forget(t);
    core::mem::forget(t2);
} }

// @h props=C01,C04,C05 fuc=ThinArc::drop,Arc::protected_from_thin,thin_to_thick
gproof! { fn c01_thin_drop__u32() {
    let n = any_count();
    let (t, len, h, buf) = mk_thin_u32(n);
    let (b0, c0) = (tbase(&t), tcw(&t));
    drop(t);
    if n == 1 { assert!(vrt::gd(1) && !vrt::g_live(b0)); } else { assert!(vrt::gd(0) && vrt::glive_at(b0) && rd(c0) == n - 1); }
    kani::cover!(n == 1, "last owner");
    kani::cover!(n > 1, "not last owner");
} }

// @h props=C01,C05 bounded=len<=2 fuc=ThinArc::drop
gproof! { #[kani::unwind(4)] fn c01_thin_drop__tr() {
    let n = any_count();
    let len: usize = kani::any();
    kani::assume(len <= 2);
    let t = ThinArc::from_header_and_iter(Tr8::new(), vrt::TrIter::new(len));
    set_tcnt(&t, n);
    let (b0, c0) = (tbase(&t), tcw(&t));
    drop(t);
    if n == 1 { assert!(vrt::drops() == len + 1 && vrt::gd(1) && !vrt::g_live(b0)); }
    else { assert!(vrt::drops() == 0 && vrt::gd(0) && rd(c0) == n - 1); }
} }

// @h props=C10,C01,C04 fuc=Arc::from_thin,Arc::into_thin,Arc::protected_from_thin,Arc::from_protected,Arc::into_thin_unchecked,Arc::from_unprotected_unchecked,Arc::protected_into_thin
gproof! { fn c10_thin_fat_thin_roundtrip() {
    let n = any_count();
    let (t, len, h, buf) = mk_thin_u32(n);
    let (b0, c0) = (tbase(&t), tcw(&t));
    let fat = Arc::from_thin(t);
    assert!(base(&fat) == b0 && cnt(&fat) == n && fat.slice.len() == len && fat.header.length == len && fat.header.header == h);
    let t2 = Arc::into_thin(fat);
    assert!(tbase(&t2) == b0 && rd(c0) == n && rlen(&t2) == len && tvalid(&t2));
    assert!(vrt::ga(1) && vrt::gd(0));
    core::mem::forget(t2);
} }

// @h props=C10,C07 kind=panic site="Length needs to be correct| in .*into_thin" fuc=Arc::into_thin note="recorded length (symbolic) != true length"
gpanic! { fn c10_into_thin_mismatch_refused() {
    let buf: [u32; TL] = kani::any();
    let len: usize = kani::any();
    kani::assume(len <= TL);
    let rl: usize = kani::any();
    kani::assume(rl != len);
    let fat = Arc::from_header_and_slice(HeaderWithLength::new(7u16, rl), &buf[..len]);
    let t = Arc::into_thin(fat);
    core::mem::forget(t);
} }

// @h props=C10 fuc=Arc::into_thin note="recorded length == true length: accepted"
gproof! { fn c10_into_thin_match_accepted() {
    let buf: [u32; TL] = kani::any();
    let len: usize = kani::any();
    kani::assume(len <= TL);
    let fat = Arc::from_header_and_slice(HeaderWithLength::new(7u16, len), &buf[..len]);
    let b0 = base(&fat);
    let t = Arc::into_thin(fat);
    assert!(tbase(&t) == b0 && rlen(&t) == len && t.slice.len() == len && tvalid(&t));
    core::mem::forget(t);
} }

// @h props=C01,C04,C10 fuc=ThinArc::with_arc,Arc::clone,Arc::drop
gproof! { fn c04_thin_with_arc_callback() {
    let n = any_count();
        let (t, len, h, buf) = mk_thin_u32(n);
    let (b0, c0) = (tbase(&t), tcw(&t));
    let keep: bool = kani::any();
    let seen = t.with_arc(|a| {
        let inside = Arc::count(a);
        assert!(base(a) == b0 && a.slice.len() == len && ThinArc::strong_count(&t) == inside);
        let c = a.clone();
        assert!(Arc::count(a) == inside + 1);
        if keep { core::mem::forget(c); } else { drop(c); }
        inside
    });
    assert!(seen == n && rd(c0) == if keep { n + 1 } else { n });
    assert!(vrt::ga(1) && vrt::gd(0));
    core::mem::forget(t);
} }

// @h props=C04 fuc=ThinArc::strong_count
gproof! { fn c04_thin_strong_count() {
    let n = any_count();
    let (t, len, h, buf) = mk_thin_u32(n);
    assert!(ThinArc::strong_count(&t) == n && tcnt(&t) == n);
    core::mem::forget(t);
} }

// @h props=C10,C03 fuc=ThinArc::with_arc_mut,HeaderSliceWithLengthProtected::header_mut,HeaderSliceWithLengthProtected::slice_mut,Arc::get_mut
gproof! { fn c10_thin_with_arc_mut_mutate() {
    let n = any_count();
    let (mut t, len, h, buf) = mk_thin_u32(n);
    let (b0, c0) = (tbase(&t), tcw(&t));
    let (nh, nv): (u16, u32) = (kani::any(), kani::any());
    let granted = t.with_arc_mut(|a| {
        match Arc::get_mut(a) {
            Some(p) => { *p.header_mut() = nh; if len > 0 { p.slice_mut()[0] = nv; } assert!(p.length() == len && p.slice().len() == len); true }
            None => false,
        }
    });
    // mutable access iff sole owner; the length word cannot be reached through the Protected API
    assert!(granted == (n == 1));
    assert!(tbase(&t) == b0 && rd(c0) == n && rlen(&t) == len && tvalid(&t));
    if granted { assert!(t.header.header == nh); if len > 0 { assert!(t.slice[0] == nv); } }
    else { assert!(t.header.header == h); }
    core::mem::forget(t);
} }

// @h props=C10,C01 fuc=ThinArc::with_arc_mut,Arc::protected_from_thin,Arc::drop note="callback replaces the Arc"
gproof! { fn c10_thin_with_arc_mut_replace() {
    let n = any_count();
    let (mut t, len, h, buf) = mk_thin_u32(n);
    let (b0, c0) = (tbase(&t), tcw(&t));
    let other: ThinArc<u16, u32> = ThinArc::from_header_and_slice(9u16, &[7u32, 8]);
    let b1 = tbase(&other);
    t.with_arc_mut(|a| { *a = Arc::protected_from_thin(other); });
    // the ThinArc now points at the replacement; the old allocation lost exactly one owner
    assert!(tbase(&t) == b1 && b1 != b0 && rlen(&t) == 2 && t.slice.len() == 2 && t.header.header == 9 && t.slice[1] == 8);
    assert!(tcnt(&t) == 1 && tvalid(&t));
    if n == 1 { assert!(vrt::gd(1) && !vrt::g_live(b0)); } else { assert!(vrt::gd(0) && rd(c0) == n - 1); }
    assert!(vrt::ga(2));
    core::mem::forget(t);
} }

// @h props=C10,C06 fuc=ThinArc::from_header_and_slice,thin_to_thick note="element type more aligned than usize AND than the header: the thin view must keep the element alignment (usize header value != length)"
gproof! { fn c10_thin_from_slice_repr__usize_a16() {
    let buf = [S16a16::any(), S16a16::any(), S16a16::any()];
    let len: usize = kani::any();
    kani::assume(len <= 3);
    let h: usize = kani::any();
    let t = ThinArc::from_header_and_slice(h, &buf[..len]);
    assert!(rlen(&t) == len && t.slice.len() == len && t.header.length == len && t.header.header == h);
    let i: usize = kani::any();
    kani::assume(i < 3);
    if i < len { assert!(t.slice[i] == buf[i]); }
    assert!(tvalid(&t));
    core::mem::forget(t);
} }

// @h props=C11,C01,C04 fuc=ThinArc::into_raw,ThinArc::from_raw,ThinArc::as_ptr,ThinArc::heap_ptr,ThinArc::ptr
gproof! { fn c11_thin_raw_roundtrip() {
    let n = any_count();
    let (t, len, h, buf) = mk_thin_u32(n);
    let (b0, c0) = (tbase(&t), tcw(&t));
    assert!(t.heap_ptr() as usize == b0 && t.ptr() as usize == b0 && vrt::glive_at(b0));
    let ap = t.as_ptr();
    let raw = t.into_raw();
    assert!(raw == ap);                 // as_ptr is "into_raw without consuming"
    assert!(rd(c0) == n && vrt::glive_at(b0)); // the raw pointer is an owner
    let t2: ThinArc<u16, u32> = unsafe { ThinArc::from_raw(raw) };
    assert!(tbase(&t2) == b0 && tcnt(&t2) == n && rlen(&t2) == len && t2.header.header == h && tvalid(&t2));
    assert!(vrt::ga(1) && vrt::gd(0));
    core::mem::forget(t2);
} }

// @h props=C11 finding=F3 fuc=ThinArc::as_ptr note="statement of C11: as_ptr returns the address at which the value itself lives"
gproof! { fn c11_thin_as_ptr_value_addr() {
    let (t, len, h, buf) = mk_thin_u32(1);
    let value_addr = vrt::addr(&*t as *const HeaderSliceWithLengthUnchecked<u16, u32>);
    assert!(t.as_ptr() as usize == value_addr, "F3 ThinArc::as_ptr is not the address Deref yields");
    core::mem::forget(t);
} }

// @h props=C11 finding=F3 fuc=ThinArc::into_raw note="statement of C11: into_raw returns the address at which the value itself lives"
gproof! { fn c11_thin_into_raw_value_addr() {
    let (t, len, h, buf) = mk_thin_u32(1);
    let value_addr = vrt::addr(&*t as *const HeaderSliceWithLengthUnchecked<u16, u32>);
    let raw = t.into_raw();
    assert!(raw as usize == value_addr, "F3 ThinArc::into_raw is not the address Deref yields");
} }

// @h props=C16 kind=panic site="abort" fuc=ThinArc::clone
gpanic! { fn c16_thin_clone_overflow_aborts() {
    let n = vrt::overflow_count();
    let (t, len, h, buf) = mk_thin_u32(n);
    let t2 = t.clone();
    core::mem::forget(t);
    core::mem::forget(t2);
} }

// @h props=C16 kind=panic site="abort" fuc=ThinArc::with_arc,Arc::clone note="clone inside with_arc"
gpanic! { fn c16_clone_inside_thin_with_arc_overflow_aborts() {
    let n = vrt::overflow_count();
    let (t, len, h, buf) = mk_thin_u32(n);
    t.with_arc(|a| { let c = a.clone(); core::mem::forget(c); });
    core::mem::forget(t);
} }

// ------------------------------------------------------------------------------------------
// C14 on thin / header-slice values: same answers as the plain (header, slice) value
// ------------------------------------------------------------------------------------------
pub(crate) fn mk_thin_u8(buf: &[u8; 2], len: usize, h: u8) -> ThinArc<u8, u8> {
    ThinArc::from_header_and_slice(h, &buf[..len])
}

macro_rules! h_thin_cmp {
    ($name:ident, |$t1:ident, $t2:ident, $p1:ident, $p2:ident| $body:expr) => {
        gproof! { #[kani::unwind(4)] fn $name() {
            let (b1, b2): ([u8; 2], [u8; 2]) = (kani::any(), kani::any());
            let (l1, l2): (usize, usize) = (kani::any(), kani::any());
            kani::assume(l1 <= 2 && l2 <= 2);
            let (h1, h2): (u8, u8) = (kani::any(), kani::any());
            let ($t1, $t2) = (mk_thin_u8(&b1, l1, h1), mk_thin_u8(&b2, l2, h2));
            // a thin value compares as its header followed by its slice
            let ($p1, $p2) = ((h1, &b1[..l1]), (h2, &b2[..l2]));
            assert!($body);
            assert!(tcnt(&$t1) == 1 && tcnt(&$t2) == 1);
            core::mem::forget($t1);
            core::mem::forget($t2);
        } }
    };
}
// @h props=C14,C04 bounded=len<=2 fuc=ThinArc::eq,HeaderSlice::eq
h_thin_cmp!(c14_thin_eq_matches_plain_value, |t1, t2, p1, p2| (t1 == t2) == (p1 == p2) && (t1 != t2) == (p1 != p2));
// @h props=C14,C04 bounded=len<=2 fuc=ThinArc::partial_cmp,ThinArc::cmp,HeaderSlice::partial_cmp,HeaderSlice::cmp
h_thin_cmp!(c14_thin_cmp_matches_plain_value, |t1, t2, p1, p2| t1.partial_cmp(&t2) == p1.partial_cmp(&p2) && t1.cmp(&t2) == p1.cmp(&p2));
// @h props=C14 bounded=len<=2 fuc=ThinArc::partial_cmp,HeaderSlice::partial_cmp
h_thin_cmp!(c14_thin_relops_match_plain_value, |t1, t2, p1, p2| (t1 < t2) == (p1 < p2) && (t1 <= t2) == (p1 <= p2) && (t1 > t2) == (p1 > p2) && (t1 >= t2) == (p1 >= p2));
// @h props=C14 bounded=len<=2 fuc=ThinArc::eq,ThinArc::cmp
h_thin_cmp!(c14_thin_eq_iff_cmp_equal, |t1, t2, p1, p2| (t1 == t2) == (t1.cmp(&t2) == core::cmp::Ordering::Equal));

// @h props=C14 bounded=len<=2 fuc=ThinArc::hash note="equal handles hash equally; the hasher is fed by the value"
gproof! { #[kani::unwind(26)] fn c14_thin_hash_equal_for_equal() {
    use core::hash::Hash;
    let (b1, b2): ([u8; 2], [u8; 2]) = (kani::any(), kani::any());
    let (l1, l2): (usize, usize) = (kani::any(), kani::any());
    kani::assume(l1 <= 2 && l2 <= 2);
    let (h1, h2): (u8, u8) = (kani::any(), kani::any());
    let (t1, t2) = (mk_thin_u8(&b1, l1, h1), mk_thin_u8(&b2, l2, h2));
    let (mut s1, mut s2, mut s3) = (vrt::RecHasher::new(), vrt::RecHasher::new(), vrt::RecHasher::new());
    t1.hash(&mut s1);
    t2.hash(&mut s2);
    (*t1).hash(&mut s3);
    assert!(s1.n == s3.n && s1.bytes == s3.bytes);
    if t1 == t2 { assert!(s1.n == s2.n && s1.bytes == s2.bytes); }
    core::mem::forget(t1);
    core::mem::forget(t2);
} }

// @h props=C14,C04 fuc=ThinArc::fmt note="Debug of a ThinArc formats the header-slice value: header and each element once"
gproof! { #[kani::unwind(4)] fn c14_thin_debug_delegates() {
    use crate::vrt::{Ip, OP_DEBUG};
    let t: ThinArc<Ip, u8> = ThinArc::from_header_and_slice(Ip(3), &[1u8, 2]);
    vrt::ip_watch(tcw(&t));
    let ok = vrt::debug_ok(&t);
    assert!(vrt::ip_seen_only(1));
    assert!(vrt::ip_calls(OP_DEBUG) == 1 && unsafe { vrt::IP_SELF } == vrt::addr(&t.header.header as *const Ip));
    assert!(tcnt(&t) == 1);
    core::mem::forget(t);
} }

// ---- check mode (proof_for_contract): frame enforcement on never-freeing accessors ----
// @h props=C11 mode=check fuc=ThinArc::heap_ptr
#[kani::proof_for_contract(ThinArc::<u16, u32>::heap_ptr)]
fn c11_chk_thin_heap_ptr() {
    vrt::ghost_reset();
    let (t, _l, _h, _b) = mk_thin_u32(any_count());
    let _ = t.heap_ptr();
    kani::cover!(true, "END");
    core::mem::forget(t);
}
// @h props=C11 mode=check fuc=ThinArc::as_ptr
#[kani::proof_for_contract(ThinArc::<u16, u32>::as_ptr)]
fn c11_chk_thin_as_ptr() {
    vrt::ghost_reset();
    let (t, _l, _h, _b) = mk_thin_u32(any_count());
    let _ = t.as_ptr();
    kani::cover!(true, "END");
    core::mem::forget(t);
}
// @h props=C04 mode=check fuc=ThinArc::strong_count
#[kani::proof_for_contract(ThinArc::<u16, u32>::strong_count)]
fn c04_chk_thin_strong_count() {
    vrt::ghost_reset();
    let (t, _l, _h, _b) = mk_thin_u32(any_count());
    let _ = ThinArc::strong_count(&t);
    kani::cover!(true, "END");
    core::mem::forget(t);
}
// @h props=C10,C05 mode=check fuc=thin_to_thick
#[kani::proof_for_contract(crate::thin_arc::thin_to_thick::<u16, u32>)]
fn c10_chk_thin_to_thick() {
    vrt::ghost_reset();
    let (t, _l, _h, _b) = mk_thin_u32(any_count());
    let _ = crate::thin_arc::thin_to_thick(&t);
    kani::cover!(true, "END");
    core::mem::forget(t);
}

// @h props=C04,C10,C01 fuc=ThinArc::with_arc_mut,ThinArc::strong_count note="callback replaces the Arc: counts stay accurate on BOTH allocations (old: one owner fewer; the ThinArc now reports the replacement's count)"
gproof! { fn c04_thin_with_arc_mut_replace_counts() {
    let n = any_count();
    kani::assume(n > 1);
    let (mut t, len, h, buf) = mk_thin_u32(n);
    let c0 = tcw(&t);
    let other: ThinArc<u16, u32> = ThinArc::from_header_and_slice(9u16, &[7u32]);
    let c1 = tcw(&other);
    t.with_arc_mut(|a| { *a = Arc::protected_from_thin(other); });
    assert!(rd(c0) == n - 1 && rd(c1) == 1);
    assert!(tcw(&t) == c1 && ThinArc::strong_count(&t) == 1);
    assert!(vrt::ga(2) && vrt::gd(0));
    core::mem::forget(t);
} }

// @h props=C04,C10,C01 fuc=ThinArc::with_arc_mut,Arc::clone,Arc::count note="inside the mutable borrow the count is what it was; a clone made inside is +1 and still visible afterwards"
gproof! { fn c04_thin_with_arc_mut_clone_inside() {
    let n = any_count();
        let (mut t, len, h, buf) = mk_thin_u32(n);
    let (b0, c0) = (tbase(&t), tcw(&t));
    let keep: bool = kani::any();
    let seen = t.with_arc_mut(|a| {
        let inside = Arc::count(a);
        assert!(base(a) == b0 && Arc::strong_count(a) == inside);
        let c = a.clone();
        assert!(Arc::count(a) == inside + 1);
        if keep { core::mem::forget(c); } else { drop(c); }
        inside
    });
    assert!(seen == n && rd(c0) == if keep { n + 1 } else { n } && tbase(&t) == b0 && rlen(&t) == len && tvalid(&t));
    assert!(vrt::ga(1) && vrt::gd(0));
    core::mem::forget(t);
} }

// @h props=C04,C14 fuc=ThinArc::hash,ThinArc::eq,ThinArc::partial_cmp note="while a ThinArc is being hashed / compared the count is what it was (no transient extra owner), symbolic count"
gproof! { #[kani::unwind(10)] fn c04_thin_hash_and_compare_hold_no_transient_owner() {
    use crate::vrt::Ip;
    use core::hash::Hash;
    let n = any_count();
    let t: ThinArc<Ip, u8> = ThinArc::from_header_and_slice(Ip(3), &[1u8, 2]);
    let u: ThinArc<Ip, u8> = ThinArc::from_header_and_slice(Ip(4), &[1u8, 2]);
    set_tcnt(&t, n);
    vrt::ip_setup(vrt::addr(&t.header.header as *const Ip), vrt::addr(&u.header.header as *const Ip));
    vrt::ip_watch(tcw(&t));
    let mut h = vrt::RecHasher::new();
    t.hash(&mut h);
    let _ = t == u;
    let _ = t.partial_cmp(&u);
    assert!(vrt::ip_total() >= 3 && vrt::ip_seen_only(n) && tcnt(&t) == n);
    core::mem::forget(t);
    core::mem::forget(u);
} }

// @h props=C01,C04,C10 fuc=ThinArc::clone_from,ThinArc::clone,ThinArc::drop note="provided Clone::clone_from"
gproof! { fn c01_thin_clone_from__other_block() {
    let (n, m) = (any_count(), any_count());
    let (mut a, _la, _ha, _ba) = mk_thin_u32(n);
    let (b, lb, hb, _bb) = mk_thin_u32(m);
    let (ba, bb, ca, cb) = (tbase(&a), tbase(&b), tcw(&a), tcw(&b));
    a.clone_from(&b);
    assert!(tbase(&a) == bb && rd(cb) == m + 1 && a.slice.len() == lb && a.header.header == hb && vrt::ga(2));
    if n == 1 { assert!(!vrt::g_live(ba) && vrt::gd(1)); } else { assert!(rd(ca) == n - 1 && vrt::glive_at(ba) && vrt::gd(0)); }
    core::mem::forget(a);
    core::mem::forget(b);
} }

/// an ExactSizeIterator whose len() is right and stable but whose size_hint is the trait's DEFAULT (0, None)
pub(crate) struct LenOnly { pub left: usize }
impl Iterator for LenOnly {
    type Item = Tr;
    fn next(&mut self) -> Option<Tr> { if self.left == 0 { None } else { self.left -= 1; Some(Tr::new()) } }
}
impl ExactSizeIterator for LenOnly {
    fn len(&self) -> usize { self.left }
}
// @h props=C10,C06 bounded=len<=3 fuc=ThinArc::from_header_and_iter,Arc::from_header_and_iter,Arc::into_thin note="the recorded length is the number of elements, whatever size_hint says: iterator with a correct len() and the default size_hint (0, None)"
gproof! { #[kani::unwind(6)] fn c10_thin_from_iter_len_not_size_hint() {
    let len: usize = kani::any();
    kani::assume(len <= 3);
    let h: u16 = kani::any();
    let t: ThinArc<u16, Tr> = ThinArc::from_header_and_iter(h, LenOnly { left: len });
    assert!(rlen(&t) == len && t.slice.len() == len && t.header.length == len && t.header.header == h && tvalid(&t));
    core::mem::forget(t);
} }

// @h props=C10,C06 fuc=Arc::into_thin,ThinArc::with_arc,Arc::from_thin,thin_to_thick note="zero-sized elements: EVERY length (also beyond isize::MAX, where the slice still occupies no bytes) survives fat -> thin -> fat"
gproof! { fn c10_thin_zero_sized_elements_any_length() {
    let n: usize = kani::any();
    let h: u8 = kani::any();
    let mut v: Vec<()> = Vec::new();
    unsafe { v.set_len(n); }
    let a = Arc::from_header_and_vec(HeaderWithLength::new(h, n), v);
    assert!(a.slice.len() == n);
    let t: ThinArc<u8, ()> = Arc::into_thin(a);
    assert!(rlen(&t) == n && t.slice.len() == n && t.header.header == h);
    let inside = t.with_arc(|x| x.slice.len());
    assert!(inside == n);
    let back = Arc::from_thin(t);
    assert!(back.slice.len() == n && back.header.header == h);
    core::mem::forget(back);
} }
