// child module of src/thin_arc.rs: sees ThinArc.ptr, thin_to_thick, with_protected_arc,
// into_thin_unchecked, from_protected, from_unprotected_unchecked.
#![allow(dead_code, unused_imports, unused_unsafe, static_mut_refs, unused_variables, unused_mut)]
use crate::arc::{Arc, ArcInner};
use crate::header::{HeaderSlice, HeaderSliceWithLengthProtected, HeaderSliceWithLengthUnchecked, HeaderWithLength};
use crate::thin_arc::ThinArc;
use crate::vrt;
use crate::vrt::{any_count, base, cnt, cw, data, mk, rd, set_cnt, Tr, Tr16, Tr8, S1, S16a16};

pub(crate) fn tbase<H, T>(t: &ThinArc<H, T>) -> usize {
    t.ptr.as_ptr() as *const u8 as usize
}
pub(crate) fn tcw<H, T>(t: &ThinArc<H, T>) -> vrt::Cw {
    t.ptr.as_ptr() as *const usize
}
pub(crate) fn tcnt<H, T>(t: &ThinArc<H, T>) -> usize {
    vrt::rd(tcw(t))
}
pub(crate) fn set_tcnt<H, T>(t: &ThinArc<H, T>, n: usize) {
    unsafe { *(tcw(t) as *mut usize) = n }
}
/// the recorded length word
pub(crate) fn rlen<H, T>(t: &ThinArc<H, T>) -> usize {
    unsafe { core::ptr::addr_of!((*t.ptr.as_ptr()).data.header.length).read() }
}
/// where the HeaderSlice value lives (spec: base + max(8, align of the value))
pub(crate) fn tdata<H, T>(t: &ThinArc<H, T>) -> usize {
    let ah = core::mem::align_of::<HeaderWithLength<H>>();
    let at = core::mem::align_of::<T>();
    tbase(t) + vrt::spec_off(if ah > at { ah } else { at })
}
/// representation invariant: live block with count >= 1 that was sized for exactly `rlen` elements
pub(crate) fn tvalid<H, T>(t: &ThinArc<H, T>) -> bool {
    let want = vrt::spec_hs::<HeaderWithLength<H>, T>(rlen(t));
    let got = vrt::g_req(tbase(t));
    tcnt(t) >= 1 && (!vrt::g_on() || (vrt::g_live(tbase(t)) && got.0 as u128 == want.0 && got.1 == want.1))
}
