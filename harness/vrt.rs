// vrt — verification runtime, injected as `#[cfg(kani)] pub(crate) mod vrt;` into the scratch
// copy of the crate (DESIGN.md §4). Ghost allocator, identity-tracked payloads, witness shapes,
// abstract-state accessors used by the injected contracts, and the atomic shim.
#![allow(dead_code, static_mut_refs, unused_unsafe, unused_imports)]

use crate::arc::{Arc, ArcInner};
use core::alloc::Layout;

/// A proof harness running under the ghost allocator; ends in a cover that must be reachable.
macro_rules! gproof {
    ($(#[$m:meta])* fn $name:ident() $body:block) => {
        #[kani::proof]
        #[kani::stub(alloc::alloc::alloc, crate::vrt::ghost_alloc)]
        #[kani::stub(alloc::alloc::dealloc, crate::vrt::ghost_dealloc)]
        #[kani::stub(alloc::alloc::dealloc_nonnull, crate::vrt::ghost_dealloc_nn)]
        #[kani::stub(alloc::alloc::realloc, crate::vrt::ghost_realloc)]
        #[kani::stub(alloc::alloc::realloc_nonnull, crate::vrt::ghost_realloc_nn)]
        #[kani::stub(alloc::alloc::alloc_zeroed, crate::vrt::ghost_alloc_zeroed)]
        $(#[$m])*
        fn $name() {
            unsafe { crate::vrt::G_TRACK = true; }
            $body;
            unsafe { crate::vrt::G_TRACK = false; }
            kani::cover!(crate::vrt::g_on(), "END");
        }
    };
}
/// A may-refuse obligation: the call may end in a panic at a declared site (driver checks every
/// failed check against the site) or return, in which case the assertions after it must hold.
macro_rules! gmay {
    ($(#[$m:meta])* fn $name:ident() $body:block) => {
        #[kani::proof]
        #[kani::should_panic]
        #[kani::stub(alloc::alloc::alloc, crate::vrt::ghost_alloc)]
        #[kani::stub(alloc::alloc::dealloc, crate::vrt::ghost_dealloc)]
        #[kani::stub(alloc::alloc::dealloc_nonnull, crate::vrt::ghost_dealloc_nn)]
        #[kani::stub(alloc::alloc::realloc, crate::vrt::ghost_realloc)]
        #[kani::stub(alloc::alloc::realloc_nonnull, crate::vrt::ghost_realloc_nn)]
        #[kani::stub(alloc::alloc::alloc_zeroed, crate::vrt::ghost_alloc_zeroed)]
        $(#[$m])*
        fn $name() {
            kani::cover!(true, "START");
            unsafe { crate::vrt::G_TRACK = true; }
            $body;
            unsafe { crate::vrt::G_TRACK = false; }
        }
    };
}
/// A never-returns obligation: the call must not return normally (the only cover in the
/// harness is RETURNED and must be unreachable); the driver also checks every failed check
/// belongs to the declared refusal site.
macro_rules! gpanic {
    ($(#[$m:meta])* fn $name:ident() $body:block) => {
        #[kani::proof]
        #[kani::should_panic]
        #[kani::stub(alloc::alloc::alloc, crate::vrt::ghost_alloc)]
        #[kani::stub(alloc::alloc::dealloc, crate::vrt::ghost_dealloc)]
        #[kani::stub(alloc::alloc::dealloc_nonnull, crate::vrt::ghost_dealloc_nn)]
        #[kani::stub(alloc::alloc::realloc, crate::vrt::ghost_realloc)]
        #[kani::stub(alloc::alloc::realloc_nonnull, crate::vrt::ghost_realloc_nn)]
        #[kani::stub(alloc::alloc::alloc_zeroed, crate::vrt::ghost_alloc_zeroed)]
        $(#[$m])*
        fn $name() {
            unsafe { crate::vrt::G_TRACK = true; }
            $body;
            unsafe { crate::vrt::G_TRACK = false; }
            kani::cover!(true, "RETURNED");
        }
    };
}

// ------------------------------------------------------------------------------------------
// Ghost allocator: stubs for alloc::alloc::{alloc, dealloc, dealloc_nonnull, realloc, realloc_nonnull, alloc_zeroed}
// ------------------------------------------------------------------------------------------
pub const GN: usize = 6;
pub static mut G_ON: bool = false;
pub static mut G_PTR: [usize; GN] = [0; GN];
pub static mut G_SIZE: [usize; GN] = [0; GN];
pub static mut G_ALIGN: [usize; GN] = [0; GN];
pub static mut G_LIVE: [bool; GN] = [false; GN];
pub static mut G_N: usize = 0; // table entries used
pub static mut G_ALLOCS: usize = 0; // alloc() calls (including failed ones)
pub static mut G_DEALLOCS: usize = 0;
pub static mut G_OK: bool = true; // every dealloc matched a live entry with identical ptr/size/align
pub static mut G_FAIL_AT: usize = 0; // k-th alloc() call returns null (0 = never)
pub static mut OD_N: usize = 0;
/// stand-in for std::process::abort in ONE ordering harness: checks the trace at the moment of the abort
pub fn ghost_abort() -> ! {
    assert!(crate::vrt::atomic::od_inc(unsafe { OD_N }), "OD-inc at abort: the overflow test must follow a single RMW increment that saw the old count");
    panic!("VRT abort reached")
}
pub static mut G_FORBID_ALLOC: bool = false;
pub static mut G_TRACK: bool = false; // native replay: record allocations (set by the harness macros)
pub static mut G_TABLE_FULL: bool = false; // obligation "refused before allocating": any alloc() is a failed check

/// bookkeeping shared by the Kani stubs and by the native replay allocator
unsafe fn g_record_alloc(p: *mut u8, layout: Layout) {
    if G_N < GN {
        G_PTR[G_N] = p as usize;
        G_SIZE[G_N] = layout.size();
        G_ALIGN[G_N] = layout.align();
        G_LIVE[G_N] = true;
        G_N += 1;
    } else {
        G_TABLE_FULL = true;
    }
}
unsafe fn g_record_dealloc(ptr: *mut u8, layout: Layout) {
    G_DEALLOCS += 1;
    crate::vrt::atomic::push(crate::vrt::atomic::K::Dealloc, 0, ptr as usize);
    let mut ok = false;
    // loop-free scan (harnesses with small unwind bounds must not hit loops in the runtime)
    macro_rules! slot {
        ($i:expr) => {
            if $i < G_N
                && G_LIVE[$i]
                && G_PTR[$i] == ptr as usize
                && G_SIZE[$i] == layout.size()
                && G_ALIGN[$i] == layout.align()
                && !ok
            {
                ok = true;
                G_LIVE[$i] = false;
            }
        };
    }
    slot!(0);
    slot!(1);
    slot!(2);
    slot!(3);
    slot!(4);
    slot!(5);
    G_OK = G_OK && ok;
}

pub unsafe fn ghost_alloc(layout: Layout) -> *mut u8 {
    extern "Rust" {
        fn __rust_alloc(size: usize, align: usize) -> *mut u8;
    }
    assert!(!G_FORBID_ALLOC, "VRT allocation requested although the request must be refused first");
    G_ALLOCS += 1;
    G_ON = true; // set here, not in the harness: a native replay without tracking skips allocator clauses
    if G_FAIL_AT != 0 && G_ALLOCS == G_FAIL_AT {
        return core::ptr::null_mut();
    }
    let p = __rust_alloc(layout.size(), layout.align());
    kani::assume(!p.is_null());
    // Kani's malloc model has no alignment: the allocator returning memory aligned as requested
    // is an assumption of every property (DESIGN §8.5).
    kani::assume(p as usize % layout.align() == 0);
    assert!(G_N < GN, "ghost allocator table full");
    g_record_alloc(p, layout);
    p
}

pub unsafe fn ghost_dealloc(ptr: *mut u8, layout: Layout) {
    extern "Rust" {
        fn __rust_dealloc(ptr: *mut u8, size: usize, align: usize);
    }
    g_record_dealloc(ptr, layout);
    __rust_dealloc(ptr, layout.size(), layout.align());
}

// Native replay (cargo kani playback builds the crate with cfg(kani) AND cfg(test), no stubs): the
// same bookkeeping sits behind a real #[global_allocator], switched on by the harness macros, so a
// counterexample about the allocator (leak, double free, wrong layout) reproduces natively too.
#[cfg(all(test, feature = "std"))]
pub struct NativeGhost;
#[cfg(all(test, feature = "std"))]
unsafe impl core::alloc::GlobalAlloc for NativeGhost {
    unsafe fn alloc(&self, layout: Layout) -> *mut u8 {
        let p = std::alloc::System.alloc(layout);
        if G_TRACK && !p.is_null() {
            G_ALLOCS += 1;
            G_ON = true;
            g_record_alloc(p, layout);
        }
        p
    }
    unsafe fn dealloc(&self, ptr: *mut u8, layout: Layout) {
        // only blocks recorded while tracking are of interest: the playback runtime itself frees
        // buffers (the concrete-value vectors) that were allocated before tracking started
        if G_TRACK && g_known(ptr as usize) {
            g_record_dealloc(ptr, layout);
        }
        std::alloc::System.dealloc(ptr, layout)
    }
}
#[cfg(all(test, feature = "std"))]
#[global_allocator]
static NATIVE_GHOST: NativeGhost = NativeGhost;

pub unsafe fn ghost_dealloc_nn(ptr: core::ptr::NonNull<u8>, layout: Layout) {
    ghost_dealloc(ptr.as_ptr(), layout)
}

/// realloc = one more alloc() call (which may be the one chosen to fail: the old block then stays
/// live and null comes back, as the GlobalAlloc contract says) followed by a copy of the common
/// prefix and the release of the old block with the layout the caller states for it.
pub unsafe fn ghost_realloc(ptr: *mut u8, layout: Layout, new_size: usize) -> *mut u8 {
    let nl = Layout::from_size_align_unchecked(new_size, layout.align());
    let p = ghost_alloc(nl);
    if !p.is_null() {
        let n = if layout.size() < new_size { layout.size() } else { new_size };
        core::ptr::copy_nonoverlapping(ptr as *const u8, p, n);
        ghost_dealloc(ptr, layout);
    }
    p
}
pub unsafe fn ghost_realloc_nn(ptr: core::ptr::NonNull<u8>, layout: Layout, new_size: usize) -> *mut u8 {
    ghost_realloc(ptr.as_ptr(), layout, new_size)
}
pub unsafe fn ghost_alloc_zeroed(layout: Layout) -> *mut u8 {
    let p = ghost_alloc(layout);
    if !p.is_null() {
        core::ptr::write_bytes(p, 0, layout.size());
    }
    p
}

/// proof_for_contract harnesses start from HAVOCKED statics (Kani assumes nothing about global
/// state when checking a contract): put the ghost state back into its initial configuration.
pub fn ghost_reset() {
    unsafe {
        G_ON = false;
        G_N = 0;
        G_ALLOCS = 0;
        G_DEALLOCS = 0;
        G_OK = true;
        G_FAIL_AT = 0;
        G_FORBID_ALLOC = false;
        G_TABLE_FULL = false;
        G_LIVE = [false; GN];
        DROPS = 0;
        CLONES = 0;
        NEXT_ID = 0;
        BAD_DROP = false;
        ISSUED = [false; IDN];
        DROPPED = [false; IDN];
        DROPS_KIND = [0; 4];
        crate::vrt::atomic::reset();
    }
}
pub fn g_on() -> bool {
    unsafe { G_ON }
}
/// harness-side allocator assertions; vacuous only in a native replay, where no stub is applied
pub fn ga(k: usize) -> bool {
    unsafe { !G_ON || G_ALLOCS == k }
}
pub fn gd(k: usize) -> bool {
    unsafe { !G_ON || (G_DEALLOCS == k && G_OK) }
}
pub fn glive(k: usize) -> bool {
    !g_on() || g_live_count() == k
}
pub fn glive_at(p: usize) -> bool {
    !g_on() || g_live(p)
}
pub fn g_allocs() -> usize {
    unsafe { G_ALLOCS }
}
pub fn g_deallocs() -> usize {
    unsafe { G_DEALLOCS }
}
pub fn g_ok() -> bool {
    unsafe { G_OK }
}
/// recorded at some point (live or not)
pub fn g_known(p: usize) -> bool {
    unsafe {
        macro_rules! slot {
            ($i:expr) => {
                ($i < G_N && G_PTR[$i] == p)
            };
        }
        slot!(0) || slot!(1) || slot!(2) || slot!(3) || slot!(4) || slot!(5)
    }
}
pub fn g_live(p: usize) -> bool {
    unsafe {
        macro_rules! slot {
            ($i:expr) => {
                ($i < G_N && G_LIVE[$i] && G_PTR[$i] == p)
            };
        }
        slot!(0) || slot!(1) || slot!(2) || slot!(3) || slot!(4) || slot!(5)
    }
}
/// (size, align) requested for the live block starting at `p`, (0,0) if none.
pub fn g_req(p: usize) -> (usize, usize) {
    unsafe {
        let mut r = (0, 0);
        macro_rules! slot {
            ($i:expr) => {
                if $i < G_N && G_LIVE[$i] && G_PTR[$i] == p {
                    r = (G_SIZE[$i], G_ALIGN[$i]);
                }
            };
        }
        slot!(0);
        slot!(1);
        slot!(2);
        slot!(3);
        slot!(4);
        slot!(5);
        r
    }
}
/// (size, align) of the most recent successful allocation.
pub fn g_last() -> (usize, usize, usize) {
    unsafe {
        if G_N == 0 {
            (0, 0, 0)
        } else {
            (G_PTR[G_N - 1], G_SIZE[G_N - 1], G_ALIGN[G_N - 1])
        }
    }
}
pub fn g_live_count() -> usize {
    unsafe {
        let mut c = 0;
        macro_rules! slot {
            ($i:expr) => {
                if $i < G_N && G_LIVE[$i] {
                    c += 1;
                }
            };
        }
        slot!(0);
        slot!(1);
        slot!(2);
        slot!(3);
        slot!(4);
        slot!(5);
        c
    }
}
/// Snapshot of (allocs, deallocs) packed for use in `old(..)`.
pub fn g_snap() -> (usize, usize) {
    unsafe { (G_ALLOCS, G_DEALLOCS) }
}
pub fn g_same(s: (usize, usize)) -> bool {
    unsafe { s.0 == G_ALLOCS && s.1 == G_DEALLOCS && G_OK }
}

// ------------------------------------------------------------------------------------------
// Abstract state of one allocation, as seen through an `Arc<T>` (DESIGN §4.1)
// ------------------------------------------------------------------------------------------
// Ghost reads go through POINTERS derived by pointer casts/arithmetic from the handle's own
// pointer, never through integer->pointer casts: CBMC case-splits every int->ptr cast over all
// objects (the union harnesses ran out of memory with integer-based helpers).
pub type Cw = *const usize;
/// pointer to the count word (repr(C): first field of the block)
pub fn cw<T: ?Sized>(a: &Arc<T>) -> Cw {
    a.p.as_ptr() as *const usize
}
pub fn cnt<T: ?Sized>(a: &Arc<T>) -> usize {
    unsafe { *cw(a) }
}
pub fn set_cnt<T: ?Sized>(a: &Arc<T>, n: usize) {
    unsafe {
        *(cw(a) as *mut usize) = n;
    }
}
/// count word behind a snapshot pointer (caller guarantees the block is still live)
pub fn rd(c: Cw) -> usize {
    unsafe { *c }
}
pub fn base<T: ?Sized>(a: &Arc<T>) -> usize {
    a.p.as_ptr() as *const u8 as usize
}
pub fn base_of_inner<T: ?Sized>(p: *const ArcInner<T>) -> usize {
    p as *const u8 as usize
}
/// Specification of where the payload lives: `repr(C) { count: usize-sized atomic, data: T }`
/// puts `data` at round_up(8, align) == max(8, align) for power-of-two alignments. Computed
/// arithmetically — NOT through `addr_of!((*p).data)` — so that `as_ptr`, `deref`, `from_raw`
/// and `offset_of_data` are checked against an independent statement (Verus lemma L2 proves the
/// same closed form for the layout expression of `offset_of_data`, for all alignments).
pub fn spec_off(align: usize) -> usize {
    if align > 8 {
        align
    } else {
        8
    }
}
pub fn spec_off_of<T: ?Sized>(p: *const T) -> usize {
    unsafe { spec_off(core::mem::align_of_val(&*p)) }
}
pub fn valign_of<T: ?Sized>(p: *const T) -> usize {
    unsafe { core::mem::align_of_val(&*p) }
}
pub fn data<T: ?Sized>(a: &Arc<T>) -> usize {
    unsafe { base(a) + spec_off(core::mem::align_of_val(&(*a.p.as_ptr()).data)) }
}
/// count word for a payload pointer handed out by into_raw-style calls (pointer arithmetic
/// inside the same object)
pub fn cw_of_data<T: ?Sized>(p: *const T) -> Cw {
    (p as *const u8).wrapping_sub(spec_off_of(p)) as Cw
}
pub fn base_of_data<T: ?Sized>(p: *const T) -> usize {
    addr(p) - spec_off_of(p)
}
pub fn cnt_of_data<T: ?Sized>(p: *const T) -> usize {
    rd(cw_of_data(p))
}
pub fn valid_data_ptr<T: ?Sized>(p: *const T) -> bool {
    addr(p) >= spec_off_of(p) && (!g_on() || g_live(base_of_data(p))) && cnt_of_data(p) >= 1
}
pub fn round_up128(x: u128, a: u128) -> u128 {
    (x + a - 1) / a * a
}
fn max3(a: usize, b: usize, c: usize) -> usize {
    let m = if a > b { a } else { b };
    if m > c {
        m
    } else {
        c
    }
}
/// (size, align) of the block `allocate_for_layout(value_layout)` must request:
/// repr(C) { 8-byte count, value } padded to its alignment. u128 arithmetic: no wrap.
pub fn spec_block(vl: Layout) -> (u128, usize) {
    let align = max3(8, vl.align(), 1);
    let off = round_up128(8, vl.align() as u128);
    (round_up128(off + vl.size() as u128, align as u128), align)
}
/// (size, align) of the block for ArcInner<HeaderSlice<H, [T]>> with `len` elements.
pub fn spec_hs<H, T>(len: usize) -> (u128, usize) {
    let ah = core::mem::align_of::<H>();
    let at = core::mem::align_of::<T>();
    let av = if ah > at { ah } else { at };
    let align = max3(8, ah, at);
    let off_data = round_up128(8, av as u128);
    let off_slice = off_data + round_up128(core::mem::size_of::<H>() as u128, at as u128);
    (round_up128(off_slice + (len as u128) * (core::mem::size_of::<T>() as u128), align as u128), align)
}
pub fn g_last_is(b: usize, want: (u128, usize)) -> bool {
    let (p, s, a) = g_last();
    !g_on() || (p == b && s as u128 == want.0 && a == want.1)
}
pub fn allocs_plus(old: usize, k: usize) -> bool {
    !g_on() || g_allocs() == old + k
}
pub fn addr<T: ?Sized>(r: *const T) -> usize {
    r as *const u8 as usize
}
/// size_of_val of the payload: distinguishes fat-pointer metadata (slice length / vtable size)
pub fn vsize<T: ?Sized>(a: &Arc<T>) -> usize {
    unsafe { core::mem::size_of_val(&(*a.p.as_ptr()).data) }
}
pub fn vsize_of<T: ?Sized>(r: *const T) -> usize {
    unsafe { core::mem::size_of_val(&*r) }
}
pub fn inner_layout<T: ?Sized>(a: &Arc<T>) -> (usize, usize) {
    unsafe {
        let l = Layout::for_value(&*a.p.as_ptr());
        (l.size(), l.align())
    }
}
/// A handle is valid when it refers to a live block (one the ghost allocator handed out and has
/// not taken back) whose count is >= 1.
pub fn valid<T: ?Sized>(a: &Arc<T>) -> bool {
    cnt(a) >= 1 && glive_at(base(a))
}
/// ... and the layout `Layout::for_value` re-derives from the (fat) pointer — which is what a later
/// release hands to the allocator — equals the layout the block was requested with. Ensured by every
/// constructor and every type- or metadata-changing conversion, required by the release functions.
pub fn valid_layout<T: ?Sized>(a: &Arc<T>) -> bool {
    valid(a) && (!g_on() || g_req(base(a)) == inner_layout(a))
}
/// Δ0 for an operation that keeps the handle: count as before, allocator untouched
pub fn delta0<T: ?Sized>(a: &Arc<T>, old_cnt: usize, old_g: (usize, usize)) -> bool {
    cnt(a) == old_cnt && g_same(old_g)
}
/// post-state of releasing one owner of the block whose count word is `c` and whose count was `n`
pub fn released(c: Cw, n: usize, old_g: (usize, usize)) -> bool {
    unsafe {
        if n == 1 {
            !g_on() || (G_DEALLOCS == old_g.1 + 1 && G_ALLOCS == old_g.0 && G_OK && !g_live(c as usize))
        } else {
            rd(c) == n - 1 && g_same(old_g)
        }
    }
}

/// The pointer an ArcBorrow / OffsetArc holds, read through its BIT PATTERN (C11: "an OffsetArc's
/// or ArcBorrow's bit pattern is the value's address") rather than through the private field, so
/// a change of the field's type (NonNull<T> <-> *const T <-> &T) does not break the contracts.
pub fn bptr<T: ?Sized>(b: &crate::ArcBorrow<'_, T>) -> *const T {
    unsafe { *(b as *const crate::ArcBorrow<'_, T> as *const *const T) }
}
pub fn optr<T>(o: &crate::OffsetArc<T>) -> *const T {
    unsafe { *(o as *const crate::OffsetArc<T> as *const *const T) }
}
// the same, seen through an OffsetArc (its word is the payload address)
pub fn ocw<T>(o: &crate::OffsetArc<T>) -> Cw {
    (optr(o) as *const u8).wrapping_sub(spec_off(core::mem::align_of::<T>())) as Cw
}
pub fn obase<T>(o: &crate::OffsetArc<T>) -> usize {
    addr(optr(o)) - spec_off(core::mem::align_of::<T>())
}
pub fn ocnt<T>(o: &crate::OffsetArc<T>) -> usize {
    rd(ocw(o))
}
pub fn ovalid<T>(o: &crate::OffsetArc<T>) -> bool {
    addr(optr(o)) >= spec_off(core::mem::align_of::<T>()) && glive_at(obase(o)) && ocnt(o) >= 1
}
/// build a handle through the library's own constructor, then make the count symbolic
pub fn mk<T>(v: T, n: usize) -> Arc<T> {
    let a = Arc::new(v);
    set_cnt(&a, n);
    a
}

/// post-state of make_mut / make_unique (C08): sole owner keeps its block untouched; a sharer
/// is redirected to a fresh block with count 1 while the old block loses exactly one owner and
/// stays live. `nb` = block the handle refers to afterwards, `rd` = address handed to the caller.
pub fn cow_post(oc: Cw, on: usize, og: (usize, usize), nc: Cw, ra: usize, align: usize) -> bool {
    unsafe {
        ra == nc as usize + spec_off(align)
            && rd(nc) == 1
            && if on == 1 {
                nc == oc && g_same(og)
            } else {
                nc != oc
                    && rd(oc) == on - 1
                    && (!g_on()
                        || (G_ALLOCS == og.0 + 1
                            && G_DEALLOCS == og.1
                            && G_OK
                            && g_live(oc as usize)
                            && g_live(nc as usize)))
            }
    }
}

// ------------------------------------------------------------------------------------------
// Identity-tracked payloads (DESIGN §4.2)
// ------------------------------------------------------------------------------------------
pub const IDN: usize = 16;
pub static mut ISSUED: [bool; IDN] = [false; IDN];
pub static mut DROPPED: [bool; IDN] = [false; IDN];
pub static mut NEXT_ID: u8 = 0;
pub static mut DROPS: usize = 0;
pub static mut CLONES: usize = 0;
pub static mut DROPS_KIND: [usize; 4] = [0; 4];
pub static mut BAD_DROP: bool = false; // unissued or repeated id destroyed

pub fn issue() -> u8 {
    unsafe {
        let id = NEXT_ID;
        assert!((id as usize) < IDN, "id table full");
        ISSUED[id as usize] = true;
        NEXT_ID += 1;
        id
    }
}
pub fn note_drop(id: u8, kind: usize) {
    unsafe {
        crate::vrt::atomic::push(crate::vrt::atomic::K::PayloadDrop, 0, id as usize);
        DROPS += 1;
        DROPS_KIND[kind] += 1;
        if (id as usize) < IDN && ISSUED[id as usize] && !DROPPED[id as usize] {
            DROPPED[id as usize] = true;
        } else {
            BAD_DROP = true;
        }
        assert!(!BAD_DROP, "destructor ran on an unissued or already destroyed value");
    }
}
pub fn drops() -> usize {
    unsafe { DROPS }
}
pub fn clones() -> usize {
    unsafe { CLONES }
}
pub fn drops_kind(k: usize) -> usize {
    unsafe { DROPS_KIND[k] }
}
pub fn dropped(id: u8) -> bool {
    unsafe { DROPPED[id as usize] }
}
pub fn issued(id: u8) -> bool {
    unsafe { (id as usize) < IDN && ISSUED[id as usize] }
}
pub fn p_snap() -> (usize, usize) {
    unsafe { (DROPS, CLONES) }
}
pub fn p_same(s: (usize, usize)) -> bool {
    unsafe { s.0 == DROPS && s.1 == CLONES }
}

macro_rules! tracked {
    ($name:ident, $kind:expr, $align:literal, $pad:literal) => {
        #[repr(C, align($align))]
        pub struct $name {
            pub id: u8,
            pub v: u8,
            pad: [u8; $pad],
        }
        impl $name {
            pub fn new() -> Self {
                $name { id: crate::vrt::issue(), v: kani::any(), pad: [0; $pad] }
            }
            pub fn with(v: u8) -> Self {
                $name { id: crate::vrt::issue(), v, pad: [0; $pad] }
            }
        }
        impl Drop for $name {
            fn drop(&mut self) {
                crate::vrt::note_drop(self.id, $kind);
            }
        }
        impl Clone for $name {
            fn clone(&self) -> Self {
                unsafe {
                    crate::vrt::CLONES += 1;
                }
                $name { id: crate::vrt::issue(), v: self.v, pad: [0; $pad] }
            }
        }
    };
}
// kind 0: byte aligned, 2 bytes; kind 1: 8-aligned 24 bytes; kind 2: 16-aligned 32 bytes; kind 3: 64-aligned
tracked!(Tr, 0, 1, 0);
tracked!(Tr8, 1, 8, 22);
tracked!(Tr16, 2, 16, 30);
tracked!(Tr64, 3, 64, 62);

/// payload WITHOUT drop glue whose Clone is observable (a bitwise copy instead of Clone is a C08 violation)
pub struct Cc(pub u32);
impl Clone for Cc {
    fn clone(&self) -> Self {
        unsafe {
            CLONES += 1;
        }
        Cc(self.0)
    }
}

/// ZERO-SIZED payload whose Clone is observable
pub struct Zc;
impl Clone for Zc {
    fn clone(&self) -> Self {
        unsafe {
            CLONES += 1;
        }
        Zc
    }
}

/// zero-sized payload with drop glue (counts only)
pub struct Zd;
pub static mut ZDROPS: usize = 0;
impl Drop for Zd {
    fn drop(&mut self) {
        unsafe {
            ZDROPS += 1;
        }
    }
}

// plain witness shapes (no drop glue)
macro_rules! shape {
    ($name:ident, $align:literal, $n:literal) => {
        #[derive(Clone, Copy, PartialEq)]
        #[repr(C, align($align))]
        pub struct $name(pub [u8; $n]);
        impl $name {
            pub fn any() -> Self {
                $name(kani::any())
            }
        }
    };
}
shape!(S1, 1, 1);
shape!(S3, 1, 3);
shape!(S2a2, 2, 2);
shape!(S4a4, 4, 4);
shape!(S9a8, 8, 9);
shape!(S16a16, 16, 16);
shape!(S33a32, 32, 33);
shape!(S64a64, 64, 64);
#[derive(Clone, Copy, PartialEq)]
pub struct Z;

pub trait Probe {
    fn probe(&self) -> u8;
}
impl Probe for S1 {
    fn probe(&self) -> u8 {
        self.0[0]
    }
}
impl Probe for S9a8 {
    fn probe(&self) -> u8 {
        self.0[0]
    }
}
impl Probe for S4a4 {
    fn probe(&self) -> u8 {
        self.0[0]
    }
}
impl Probe for Tr8 {
    fn probe(&self) -> u8 {
        self.v
    }
}
impl Probe for Z {
    fn probe(&self) -> u8 {
        0
    }
}

/// symbolic owner count in the range every history can reach. The property lets the abort strike
/// "once the count has passed half the address space"; the exact trip point (isize::MAX, +1) is a
/// licence (C16), so counts that must behave normally stop at isize::MAX - 1 and counts that must
/// abort start at isize::MAX + 2 (`overflow_count`).
pub fn any_count() -> usize {
    let n: usize = kani::any();
    kani::assume(n >= 1 && n < isize::MAX as usize);
    n
}
pub fn overflow_count() -> usize {
    let n: usize = kani::any();
    kani::assume(n > isize::MAX as usize + 1);
    n
}

// ------------------------------------------------------------------------------------------
// Atomic shim (only used in builds where the two `use` lines were redirected, DESIGN §3.1)
// ------------------------------------------------------------------------------------------
pub mod atomic {
    pub use core::sync::atomic::Ordering;
    use core::sync::atomic as real;
    #[derive(Clone, Copy, PartialEq)]
    pub enum K {
        Load,
        Store,
        Add,
        Sub,
        Cas,
        Fence,
        CompilerFence,
        PayloadDrop,
        Dealloc,
        Other,
    }
    #[derive(Clone, Copy)]
    pub struct Ev {
        pub k: K,
        pub ord: u8,
        pub seen: usize,
    }
    pub const TN: usize = 10;
    pub static mut TRACE: [Ev; TN] = [Ev { k: K::Other, ord: 0, seen: 0 }; TN];
    pub static mut TLEN: usize = 0;
    pub static mut T_OVERFLOW: bool = false;
    pub fn oc(o: Ordering) -> u8 {
        match o {
            Ordering::Relaxed => 1,
            Ordering::Release => 2,
            Ordering::Acquire => 3,
            Ordering::AcqRel => 4,
            Ordering::SeqCst => 5,
            _ => 0,
        }
    }
    pub fn release_class(o: u8) -> bool {
        o == 2 || o == 4 || o == 5
    }
    pub fn acquire_class(o: u8) -> bool {
        o == 3 || o == 4 || o == 5
    }
    pub fn push(k: K, ord: u8, seen: usize) {
        unsafe {
            if TLEN < TN {
                TRACE[TLEN] = Ev { k, ord, seen };
                TLEN += 1;
            } else {
                T_OVERFLOW = true;
            }
        }
    }
    pub fn reset() {
        unsafe {
            TLEN = 0;
            T_OVERFLOW = false;
        }
    }
    pub fn tlen() -> usize {
        unsafe { TLEN }
    }
    pub fn ev(i: usize) -> Ev {
        unsafe { TRACE[i] }
    }
    // ---- ordering-discipline predicates over the trace of ONE library call (DESIGN §5 C02) ----
    fn is_count_ev(k: K) -> bool {
        k == K::Load || k == K::Store || k == K::Add || k == K::Sub || k == K::Cas || k == K::Other
    }
    /// the protocol has the recognised shape for a release: fences/nothing, then ONE RMW decrement,
    /// then only loads/fences/payload-drop/dealloc events. Anything else (CAS loop, stores, second
    /// decrement) is "unrecognised": the check answers undecided, not violated.
    pub fn od_dec_shape() -> bool {
        unsafe {
            if T_OVERFLOW {
                return false;
            }
            let mut i = 0;
            let mut subs = 0;
            let mut ok = true;
            while i < TLEN {
                let e = TRACE[i];
                if e.k == K::Sub {
                    subs += 1;
                } else if e.k == K::Store || e.k == K::Add || e.k == K::Cas || e.k == K::Other {
                    ok = false;
                } else if e.k == K::Load && subs == 0 {
                    ok = false;
                }
                i += 1;
            }
            ok && subs == 1
        }
    }
    /// OD-dec: release-class decrement that saw `n`; if n > 1 nothing at all afterwards; if n == 1 an
    /// acquire-class event precedes every payload drop and the (single) dealloc.
    pub fn od_dec_orders(n: usize, want_payload_drops: usize) -> bool {
        unsafe {
            let mut i = 0;
            let mut rel_fence = false;
            let mut seen_sub = false;
            let mut acq = false;
            let mut ok = true;
            let mut deallocs = 0;
            let mut pdrops = 0;
            while i < TLEN {
                let e = TRACE[i];
                if !seen_sub {
                    if e.k == K::Fence && release_class(e.ord) {
                        rel_fence = true;
                    }
                    if e.k == K::Sub {
                        seen_sub = true;
                        ok = ok && e.seen == n && (release_class(e.ord) || rel_fence);
                        acq = acquire_class(e.ord);
                    }
                    if e.k == K::PayloadDrop || e.k == K::Dealloc {
                        ok = false;
                    }
                } else {
                    if n != 1 {
                        ok = false; // no thread touches the value or its count after its release
                    }
                    if (e.k == K::Load || e.k == K::Fence) && acquire_class(e.ord) {
                        acq = true;
                    }
                    if e.k == K::PayloadDrop {
                        pdrops += 1;
                        ok = ok && acq;
                    }
                    if e.k == K::Dealloc {
                        deallocs += 1;
                        ok = ok && acq;
                    }
                }
                i += 1;
            }
            ok && seen_sub && (n != 1 || (deallocs == 1 && pdrops == want_payload_drops))
        }
    }
    /// A DEFINITE breach, whatever else the protocol does: a plain (non read-modify-write) write to the
    /// count before this thread has performed any acquire-class operation on it, followed by the
    /// destruction of the payload or the release of the block. The plain write ends the release
    /// sequences headed by the other owners' decrements, so no later acquire in this call can
    /// synchronise with them (C11 [intro.races] release sequence = the head + RMWs only).
    pub fn od_plain_write_cuts_release_sequences() -> bool {
        unsafe {
            let mut i = 0;
            let mut acq = false;
            let mut cut = false;
            let mut bad = false;
            while i < TLEN {
                let e = TRACE[i];
                if (e.k == K::Load || e.k == K::Cas || e.k == K::Sub || e.k == K::Add || e.k == K::Fence) && acquire_class(e.ord) {
                    acq = true;
                }
                if e.k == K::Store && !acq {
                    cut = true;
                }
                if (e.k == K::PayloadDrop || e.k == K::Dealloc) && cut {
                    bad = true;
                }
                i += 1;
            }
            bad
        }
    }
    /// OD-inc: the count is modified by exactly one atomic read-modify-write increment that saw `n`
    pub fn od_inc(n: usize) -> bool {
        unsafe {
            let mut i = 0;
            let mut adds = 0;
            let mut ok = !T_OVERFLOW;
            while i < TLEN {
                let e = TRACE[i];
                if e.k == K::Add {
                    adds += 1;
                    ok = ok && e.seen == n;
                } else if e.k == K::Store || e.k == K::Sub || e.k == K::Cas || e.k == K::Other || e.k == K::PayloadDrop || e.k == K::Dealloc {
                    ok = false;
                }
                i += 1;
            }
            ok && adds == 1
        }
    }
    /// OD-read: no modification of the count, nothing destroyed
    pub fn od_read_only() -> bool {
        unsafe {
            let mut i = 0;
            let mut ok = !T_OVERFLOW;
            while i < TLEN {
                let e = TRACE[i];
                if e.k != K::Load && e.k != K::Fence && e.k != K::CompilerFence {
                    ok = false;
                }
                i += 1;
            }
            ok
        }
    }
    /// OD-unique: some acquire-class load of the count saw 1 (or a load that saw 1 followed by an
    /// acquire fence) — the synchronisation a uniqueness grant needs
    pub fn od_acquire_saw_one() -> bool {
        unsafe {
            let mut i = 0;
            let mut found = false;
            let mut relaxed_one = false;
            while i < TLEN {
                let e = TRACE[i];
                if (e.k == K::Load || e.k == K::Cas) && e.seen == 1 {
                    if acquire_class(e.ord) {
                        found = true;
                    } else {
                        relaxed_one = true;
                    }
                }
                if e.k == K::Fence && acquire_class(e.ord) && relaxed_one {
                    found = true;
                }
                i += 1;
            }
            found
        }
    }
    /// no event modifies the count (grant/refusal of a gate itself never does)
    pub fn od_no_modification() -> bool {
        unsafe {
            let mut i = 0;
            let mut ok = !T_OVERFLOW;
            while i < TLEN {
                let e = TRACE[i];
                if e.k == K::Store || e.k == K::Add || e.k == K::Sub || e.k == K::Other {
                    ok = false;
                }
                i += 1;
            }
            ok
        }
    }

    #[repr(transparent)]
    pub struct AtomicUsize(real::AtomicUsize);
    impl AtomicUsize {
        pub const fn new(v: usize) -> Self {
            AtomicUsize(real::AtomicUsize::new(v))
        }
        pub fn load(&self, o: Ordering) -> usize {
            let v = self.0.load(o);
            push(K::Load, oc(o), v);
            v
        }
        pub fn store(&self, v: usize, o: Ordering) {
            push(K::Store, oc(o), v);
            self.0.store(v, o)
        }
        pub fn fetch_add(&self, d: usize, o: Ordering) -> usize {
            let v = self.0.fetch_add(d, o);
            push(K::Add, oc(o), v);
            v
        }
        pub fn fetch_sub(&self, d: usize, o: Ordering) -> usize {
            let v = self.0.fetch_sub(d, o);
            push(K::Sub, oc(o), v);
            v
        }
        pub fn compare_exchange(&self, c: usize, n: usize, s: Ordering, f: Ordering) -> Result<usize, usize> {
            let r = self.0.compare_exchange(c, n, s, f);
            push(K::Cas, oc(s), match r { Ok(v) => v, Err(v) => v });
            r
        }
        pub fn compare_exchange_weak(&self, c: usize, n: usize, s: Ordering, f: Ordering) -> Result<usize, usize> {
            self.compare_exchange(c, n, s, f)
        }
        pub fn swap(&self, v: usize, o: Ordering) -> usize {
            let r = self.0.swap(v, o);
            push(K::Other, oc(o), r);
            r
        }
        pub fn fetch_update<F: FnMut(usize) -> Option<usize>>(&self, s: Ordering, f: Ordering, g: F) -> Result<usize, usize> {
            let r = self.0.fetch_update(s, f, g);
            push(K::Cas, oc(s), match r { Ok(v) => v, Err(v) => v });
            r
        }
        pub fn fetch_max(&self, v: usize, o: Ordering) -> usize {
            let r = self.0.fetch_max(v, o);
            push(K::Other, oc(o), r);
            r
        }
        pub fn fetch_min(&self, v: usize, o: Ordering) -> usize {
            let r = self.0.fetch_min(v, o);
            push(K::Other, oc(o), r);
            r
        }
        pub fn into_inner(self) -> usize {
            self.0.into_inner()
        }
        pub fn get_mut(&mut self) -> &mut usize {
            push(K::Other, 0, 0);
            self.0.get_mut()
        }
        pub fn as_ptr(&self) -> *mut usize {
            self.0.as_ptr()
        }
    }
    pub fn fence(o: Ordering) {
        push(K::Fence, oc(o), 0);
        real::fence(o)
    }
    /// a compiler fence orders nothing between threads: recorded, but never acquire/release-class
    pub fn compiler_fence(o: Ordering) {
        push(K::CompilerFence, oc(o), 0);
        real::compiler_fence(o)
    }
}

/// ExactSizeIterator over fresh tracked elements; `lie` is added to the truthful length report.
pub struct TrIter {
    pub left: usize,
    pub lie: isize,
}
impl TrIter {
    pub fn new(n: usize) -> Self {
        TrIter { left: n, lie: 0 }
    }
    pub fn lying(reported: usize, actual: usize) -> Self {
        TrIter { left: actual, lie: reported as isize - actual as isize }
    }
    fn rep(&self) -> usize {
        let r = self.left as isize + self.lie;
        if r < 0 {
            0
        } else {
            r as usize
        }
    }
}
impl Iterator for TrIter {
    type Item = Tr;
    fn next(&mut self) -> Option<Tr> {
        if self.left == 0 {
            None
        } else {
            self.left -= 1;
            Some(Tr::new())
        }
    }
    fn size_hint(&self) -> (usize, Option<usize>) {
        (self.rep(), Some(self.rep()))
    }
}
impl ExactSizeIterator for TrIter {
    fn len(&self) -> usize {
        self.rep()
    }
}

// ------------------------------------------------------------------------------------------
// Instrumented payload for the delegation contracts of C14: every comparison / hash / format
// operation records (which op, self address, other address or hasher/formatter address) and
// returns a value chosen by the harness (symbolic), so "the handle calls the payload's operation
// exactly once on (&*a, &*b) and returns its answer unchanged" is checked for ALL answers.
// ------------------------------------------------------------------------------------------
pub const OP_EQ: usize = 0;
pub const OP_NE: usize = 1;
pub const OP_PCMP: usize = 2;
pub const OP_LT: usize = 3;
pub const OP_LE: usize = 4;
pub const OP_GT: usize = 5;
pub const OP_GE: usize = 6;
pub const OP_CMP: usize = 7;
pub const OP_HASH: usize = 8;
pub const OP_DEBUG: usize = 9;
pub const OP_DISPLAY: usize = 10;
pub static mut IP_CALLS: [usize; 11] = [0; 11];
pub static mut IP_SELF: usize = 0;
pub static mut IP_OTHER: usize = 0;
// The comparison answers of `Ip` are SYMBOLIC BUT LAWFUL: the harness fixes a relation between the
// two payloads at addresses IP_A and IP_B (IP_ORD: 0 unordered, 1 A<B, 2 A==B, 3 A>B); every
// operator answers according to that one relation (and its converse for swapped arguments). A handle
// may therefore implement `ne` as `!eq`, `le` through `partial_cmp`, ... without changing any
// answer — only a wrong answer, a comparison of the wrong operands, or no consultation of the
// values at all is a violation of C14.
pub static mut IP_A: usize = 0;
pub static mut IP_B: usize = 0;
pub static mut IP_ORD: u8 = 0;
pub static mut IP_FOREIGN: bool = false; // an operator was applied to operands other than (A,B)/(B,A)/(X,X)
pub static mut IP_FMT_OK: bool = true;
pub fn ip_total() -> usize {
    unsafe {
        let c = &IP_CALLS;
        c[0] + c[1] + c[2] + c[3] + c[4] + c[5] + c[6] + c[7] + c[8] + c[9] + c[10]
    }
}
pub fn ip_calls(op: usize) -> usize {
    unsafe { IP_CALLS[op] }
}
pub fn ip_only(op: usize) -> bool {
    ip_calls(op) == 1 && ip_total() == 1
}
pub fn ip_args(s: usize, o: usize) -> bool {
    unsafe { IP_SELF == s && IP_OTHER == o }
}
/// the values were consulted (at least one comparison operator ran) and only on the two payloads
pub fn ip_consulted() -> bool {
    unsafe { ip_total() >= 1 && !IP_FOREIGN }
}
pub fn ip_setup(a: usize, b: usize) {
    unsafe {
        IP_A = a;
        IP_B = b;
        IP_ORD = kani::any();
        kani::assume(IP_ORD <= 3);
        IP_FMT_OK = kani::any();
    }
}
/// C04 "not even while the borrow is in use": while a payload operation runs (i.e. in the middle of
/// the handle's comparison / hash / format), the count word the harness asked to watch is read
pub static mut IP_WATCH: Cw = core::ptr::null();
pub static mut IP_SEEN_MIN: usize = usize::MAX;
pub static mut IP_SEEN_MAX: usize = 0;
pub fn ip_watch(c: Cw) {
    unsafe {
        IP_WATCH = c;
    }
}
/// every value the watched count had while payload operations ran was `n`
pub fn ip_seen_only(n: usize) -> bool {
    unsafe { IP_SEEN_MIN == n && IP_SEEN_MAX == n }
}
fn ip_rec<A: ?Sized, B: ?Sized>(op: usize, s: &A, o: &B) {
    unsafe {
        if !IP_WATCH.is_null() {
            let c = rd(IP_WATCH);
            if c < IP_SEEN_MIN {
                IP_SEEN_MIN = c;
            }
            if c > IP_SEEN_MAX {
                IP_SEEN_MAX = c;
            }
        }
        IP_CALLS[op] += 1;
        IP_SELF = s as *const A as *const u8 as usize;
        IP_OTHER = o as *const B as *const u8 as usize;
    }
}
fn ord_of(code: u8) -> Option<core::cmp::Ordering> {
    match code {
        1 => Some(core::cmp::Ordering::Less),
        2 => Some(core::cmp::Ordering::Equal),
        3 => Some(core::cmp::Ordering::Greater),
        _ => None,
    }
}
/// the relation between A and B the harness fixed (what comparing the VALUES answers)
pub fn ip_ord() -> Option<core::cmp::Ordering> {
    unsafe { ord_of(IP_ORD) }
}
fn ip_rel(s: &Ip, o: &Ip) -> Option<core::cmp::Ordering> {
    unsafe {
        let (sa, oa) = (s as *const Ip as usize, o as *const Ip as usize);
        if sa == IP_A && oa == IP_B {
            ord_of(IP_ORD)
        } else if sa == IP_B && oa == IP_A {
            match ord_of(IP_ORD) {
                Some(x) => Some(x.reverse()),
                None => None,
            }
        } else if sa == oa {
            Some(core::cmp::Ordering::Equal)
        } else {
            IP_FOREIGN = true;
            None
        }
    }
}
pub struct Ip(pub u8);
impl PartialEq for Ip {
    fn eq(&self, o: &Ip) -> bool {
        ip_rec(OP_EQ, self, o);
        ip_rel(self, o) == Some(core::cmp::Ordering::Equal)
    }
    fn ne(&self, o: &Ip) -> bool {
        ip_rec(OP_NE, self, o);
        ip_rel(self, o) != Some(core::cmp::Ordering::Equal)
    }
}
impl Eq for Ip {}
impl PartialOrd for Ip {
    fn partial_cmp(&self, o: &Ip) -> Option<core::cmp::Ordering> {
        ip_rec(OP_PCMP, self, o);
        ip_rel(self, o)
    }
    fn lt(&self, o: &Ip) -> bool {
        ip_rec(OP_LT, self, o);
        ip_rel(self, o) == Some(core::cmp::Ordering::Less)
    }
    fn le(&self, o: &Ip) -> bool {
        ip_rec(OP_LE, self, o);
        matches!(ip_rel(self, o), Some(core::cmp::Ordering::Less) | Some(core::cmp::Ordering::Equal))
    }
    fn gt(&self, o: &Ip) -> bool {
        ip_rec(OP_GT, self, o);
        ip_rel(self, o) == Some(core::cmp::Ordering::Greater)
    }
    fn ge(&self, o: &Ip) -> bool {
        ip_rec(OP_GE, self, o);
        matches!(ip_rel(self, o), Some(core::cmp::Ordering::Greater) | Some(core::cmp::Ordering::Equal))
    }
}
impl Ord for Ip {
    fn cmp(&self, o: &Ip) -> core::cmp::Ordering {
        ip_rec(OP_CMP, self, o);
        match ip_rel(self, o) {
            Some(x) => x,
            None => core::cmp::Ordering::Less, // total orders have no unordered pairs: harnesses for cmp assume IP_ORD != 0
        }
    }
}
impl core::hash::Hash for Ip {
    fn hash<H: core::hash::Hasher>(&self, st: &mut H) {
        ip_rec(OP_HASH, self, st);
        st.write_u8(self.0);
    }
}
impl core::fmt::Debug for Ip {
    fn fmt(&self, f: &mut core::fmt::Formatter) -> core::fmt::Result {
        ip_rec(OP_DEBUG, self, f);
        if unsafe { IP_FMT_OK } {
            Ok(())
        } else {
            Err(core::fmt::Error)
        }
    }
}
impl core::fmt::Display for Ip {
    fn fmt(&self, f: &mut core::fmt::Formatter) -> core::fmt::Result {
        ip_rec(OP_DISPLAY, self, f);
        if unsafe { IP_FMT_OK } {
            Ok(())
        } else {
            Err(core::fmt::Error)
        }
    }
}
/// recording hasher
pub struct RecHasher {
    pub bytes: [u8; 24],
    pub n: usize,
}
impl RecHasher {
    pub fn new() -> Self {
        RecHasher { bytes: [0; 24], n: 0 }
    }
}
impl core::hash::Hasher for RecHasher {
    fn finish(&self) -> u64 {
        0
    }
    fn write(&mut self, b: &[u8]) {
        let mut i = 0;
        while i < b.len() {
            if self.n < 24 {
                self.bytes[self.n] = b[i];
            }
            self.n += 1;
            i += 1;
        }
    }
    fn write_u8(&mut self, b: u8) {
        if self.n < 24 {
            self.bytes[self.n] = b;
        }
        self.n += 1;
    }
}
/// formats `x` with {:?} / {} through a formatter whose address is recorded, without `format!`
pub static mut FMT_ADDR: usize = 0;
pub struct DbgProbe<'a, T: core::fmt::Debug + 'a>(pub &'a T);
impl<'a, T: core::fmt::Debug> core::fmt::Debug for DbgProbe<'a, T> {
    fn fmt(&self, f: &mut core::fmt::Formatter) -> core::fmt::Result {
        unsafe {
            FMT_ADDR = f as *const _ as usize;
        }
        core::fmt::Debug::fmt(self.0, f)
    }
}
pub struct DispProbe<'a, T: core::fmt::Display + 'a>(pub &'a T);
impl<'a, T: core::fmt::Display> core::fmt::Display for DispProbe<'a, T> {
    fn fmt(&self, f: &mut core::fmt::Formatter) -> core::fmt::Result {
        unsafe {
            FMT_ADDR = f as *const _ as usize;
        }
        core::fmt::Display::fmt(self.0, f)
    }
}
pub struct Sink;
impl core::fmt::Write for Sink {
    fn write_str(&mut self, _s: &str) -> core::fmt::Result {
        Ok(())
    }
}
/// sink that remembers the first byte ever written (0 = nothing written)
pub struct FirstByte(pub u8);
impl core::fmt::Write for FirstByte {
    fn write_str(&mut self, s: &str) -> core::fmt::Result {
        if self.0 == 0 && !s.is_empty() {
            self.0 = s.as_bytes()[0];
        }
        Ok(())
    }
}
pub fn debug_first_byte<T: core::fmt::Debug>(x: &T) -> u8 {
    use core::fmt::Write;
    let mut w = FirstByte(0);
    let _ = write!(w, "{:?}", x);
    w.0
}
pub fn debug_ok<T: core::fmt::Debug>(x: &T) -> bool {
    use core::fmt::Write;
    write!(Sink, "{:?}", DbgProbe(x)).is_ok()
}
pub fn display_ok<T: core::fmt::Display>(x: &T) -> bool {
    use core::fmt::Write;
    write!(Sink, "{}", DispProbe(x)).is_ok()
}
