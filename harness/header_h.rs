// child module of src/header.rs: constructors (C05 layout, C06 contents/moves, C07 lying iterators
// and allocation failure).
#![allow(dead_code, unused_imports, unused_unsafe, static_mut_refs, unused_variables, unused_mut, deprecated)]
use crate::arc::{Arc, ArcInner};
use crate::header::{HeaderSlice, HeaderWithLength};
use crate::thin_arc::ThinArc;
use crate::unique_arc::UniqueArc;
use crate::vrt;
use crate::vrt::{any_count, base, cnt, cw, data, mk, rd, set_cnt, Tr, Tr16, Tr64, Tr8, TrIter, Zd, S1, S16a16, S2a2, S33a32, S4a4,
                 S64a64, S9a8, S3, Z};
use alloc::boxed::Box;
use alloc::string::String;
use alloc::vec::Vec;
use core::alloc::Layout;
use core::iter::FromIterator;
use core::mem::MaybeUninit;

// ------------------------------------------------------------------------------------------
// C05: the block requested fits count + header + len elements, for a fully symbolic length
// ------------------------------------------------------------------------------------------
macro_rules! h_alloc_hs {
    ($name:ident, $H:ty, $T:ty) => {
        gproof! { fn $name() {
            let len: usize = kani::any();
            let esz = core::mem::size_of::<$T>();
            kani::assume(esz == 0 || len <= (isize::MAX as usize - 4096) / esz);
            let inner = Arc::<HeaderSlice<$H, [$T]>>::allocate_for_header_and_slice(len);
            let p = inner.as_ptr();
            let b0 = p as *const u8 as usize;
            let (size, align) = vrt::g_req(b0);
            let l = unsafe { Layout::for_value(&*p) };
            // what a later release re-derives from the fat pointer is exactly what was requested
            assert!(!vrt::g_on() || (l.size() == size && l.align() == align));
            // large enough for count + header + len elements (no wrapped multiplication)
            let need = 8u128 + core::mem::size_of::<$H>() as u128 + (len as u128) * (esz as u128);
            assert!(!vrt::g_on() || size as u128 >= need);
            let hp = unsafe { core::ptr::addr_of!((*p).data.header) } as usize;
            let sp = unsafe { core::ptr::addr_of!((*p).data.slice) } as *const $T as usize;
            assert!(hp % core::mem::align_of::<$H>() == 0 && sp % core::mem::align_of::<$T>() == 0);
            assert!(hp >= b0 + 8 && sp >= hp + core::mem::size_of::<$H>());
            assert!(!vrt::g_on() || (sp - b0) as u128 + (len as u128) * (esz as u128) <= size as u128);
            assert!((p as *const [$T]).len() == len && vrt::rd(p as *const usize) == 1 && vrt::ga(1));
        } }
    };
}
// @h props=C05 fuc=Arc::allocate_for_header_and_slice,Arc::allocate_for_layout,Arc::try_allocate_for_layout note="len fully symbolic"
h_alloc_hs!(c05_alloc_hs__u16_u32, u16, u32);
// @h props=C05 fuc=Arc::allocate_for_header_and_slice,Arc::allocate_for_layout,Arc::try_allocate_for_layout note="len fully symbolic"
h_alloc_hs!(c05_alloc_hs__unit_u8, (), u8);
// @h props=C05 fuc=Arc::allocate_for_header_and_slice,Arc::allocate_for_layout,Arc::try_allocate_for_layout note="tail padding"
h_alloc_hs!(c05_alloc_hs__u64_u8, u64, u8);
// @h props=C05 fuc=Arc::allocate_for_header_and_slice,Arc::allocate_for_layout,Arc::try_allocate_for_layout note="over-aligned header"
h_alloc_hs!(c05_alloc_hs__a16_u16, S16a16, u16);
// @h props=C05 fuc=Arc::allocate_for_header_and_slice,Arc::allocate_for_layout,Arc::try_allocate_for_layout note="over-aligned element"
h_alloc_hs!(c05_alloc_hs__u8_a16, u8, S16a16);
// @h props=C05 tier=thorough fuc=Arc::allocate_for_header_and_slice
h_alloc_hs!(c05_alloc_hs__hwl_u32, HeaderWithLength<u16>, u32);
// @h props=C05 tier=thorough fuc=Arc::allocate_for_header_and_slice
h_alloc_hs!(c05_alloc_hs__a64_s3, S64a64, vrt::S3);
// @h props=C05 tier=thorough fuc=Arc::allocate_for_header_and_slice
h_alloc_hs!(c05_alloc_hs__s3_a32, vrt::S3, S33a32);
// @h props=C05 tier=thorough fuc=Arc::allocate_for_header_and_slice note="zero-sized element"
h_alloc_hs!(c05_alloc_hs__u32_zst, u32, Z);

/// zero-sized header that still carries an alignment requirement
#[repr(align(32))]
pub(crate) struct Za32;
// @h props=C05 fuc=Arc::allocate_for_header_and_slice,Arc::allocate_for_layout note="zero-sized but over-aligned header: its alignment still shapes the block"
h_alloc_hs!(c05_alloc_hs__zst_a32_u8, Za32, u8);
// @h props=C05 tier=thorough fuc=Arc::allocate_for_header_and_slice note="zero-length array header with a 16-byte alignment"
h_alloc_hs!(c05_alloc_hs__u128x0_u16, [u128; 0], u16);

// @h props=C05 kind=panic site="unwrap|LayoutError|capacity overflow| in .*allocate_for_header_and_slice" fuc=Arc::allocate_for_header_and_slice note="size overflow refused BEFORE allocating (any alloc() is a failed check)"
gpanic! { fn c05_alloc_hs_overflow_refused__u16_u32() {
    let len: usize = kani::any();
    // every length whose true block size exceeds isize::MAX
    kani::assume((len as u128) * 4 + 12 > isize::MAX as u128 - 7);
    unsafe { vrt::G_FORBID_ALLOC = true; }
    let inner = Arc::<HeaderSlice<u16, [u32]>>::allocate_for_header_and_slice(len);
} }

// @h props=C05 kind=panic site="unwrap|LayoutError|capacity overflow| in .*allocate_for_header_and_slice" fuc=Arc::allocate_for_header_and_slice
gpanic! { fn c05_alloc_hs_overflow_refused__a16_a16() {
    let len: usize = kani::any();
    kani::assume((len as u128) * 16 + 32 > isize::MAX as u128 - 15);
    unsafe { vrt::G_FORBID_ALLOC = true; }
    let inner = Arc::<HeaderSlice<S16a16, [S16a16]>>::allocate_for_header_and_slice(len);
} }

// @h props=C05 kind=panic site="unwrap|LayoutError|capacity overflow| in .*allocate_for_header_and_slice" fuc=UniqueArc::new_uninit_slice,Arc::allocate_for_header_and_slice
gpanic! { fn c05_new_uninit_slice_overflow_refused() {
    let len: usize = kani::any();
    kani::assume((len as u128) * 8 + 8 > isize::MAX as u128 - 7);
    unsafe { vrt::G_FORBID_ALLOC = true; }
    let u: UniqueArc<[MaybeUninit<u64>]> = UniqueArc::new_uninit_slice(len);
} }

macro_rules! h_arc_new_layout {
    ($name:ident, $T:ty, $v:expr) => {
        gproof! { fn $name() {
            let a: Arc<$T> = Arc::new($v);
            let (b0, d0) = (base(&a), data(&a));
            let (size, align) = vrt::g_req(b0);
            assert!(cnt(&a) == 1 && vrt::ga(1));
            assert!(!vrt::g_on() || (size == core::mem::size_of::<ArcInner<$T>>() && align == core::mem::align_of::<ArcInner<$T>>()));
            assert!(vrt::addr(&*a as *const $T) == d0 && d0 % core::mem::align_of::<$T>() == 0 && d0 >= b0 + 8);
            assert!(!vrt::g_on() || d0 + core::mem::size_of::<$T>() <= b0 + size);
            drop(a);
            assert!(vrt::gd(1) && vrt::glive(0));
        } }
    };
}
// @h props=C05,C06 fuc=Arc::new,Arc::drop
h_arc_new_layout!(c05_arc_new_layout__zst, Z, Z);
// @h props=C05,C06 fuc=Arc::new,Arc::drop
h_arc_new_layout!(c05_arc_new_layout__s1, S1, S1::any());
// @h props=C05,C06 fuc=Arc::new,Arc::drop
h_arc_new_layout!(c05_arc_new_layout__s9a8, S9a8, S9a8::any());
// @h props=C05,C06 fuc=Arc::new,Arc::drop
h_arc_new_layout!(c05_arc_new_layout__a16, S16a16, S16a16::any());
// @h props=C05,C06 fuc=Arc::new,Arc::drop
h_arc_new_layout!(c05_arc_new_layout__a64, S64a64, S64a64::any());
// @h props=C05 tier=thorough fuc=Arc::new,Arc::drop
h_arc_new_layout!(c05_arc_new_layout__a32, S33a32, S33a32::any());
// @h props=C05 tier=thorough fuc=Arc::new,Arc::drop
h_arc_new_layout!(c05_arc_new_layout__s2a2, S2a2, S2a2::any());
// @h props=C05 tier=thorough fuc=Arc::new,Arc::drop
h_arc_new_layout!(c05_arc_new_layout__s3, vrt::S3, vrt::S3::any());

// ------------------------------------------------------------------------------------------
// C06: constructors deliver exactly the given contents and move each element once
// ------------------------------------------------------------------------------------------

// @h props=C06,C05 bounded=len<=3 fuc=Arc::from_header_and_iter,Arc::allocate_for_header_and_slice
gproof! { #[kani::unwind(5)] fn c06_from_header_and_iter__tr() {
    let len: usize = kani::any();
    kani::assume(len <= 3);
    let hd = Tr8::new();
    let hid = hd.id;
    let a = Arc::from_header_and_iter(hd, TrIter::new(len));
    assert!(a.slice.len() == len && a.header.id == hid && cnt(&a) == 1);
    let mut i = 0;
    while i < len { assert!(a.slice[i].id == hid + 1 + i as u8 && !vrt::dropped(a.slice[i].id)); i += 1; }
    // moved, not cloned; no destructor has run at return
    assert!(vrt::drops() == 0 && vrt::clones() == 0 && vrt::ga(1) && vrt::gd(0));
    drop(a);
    assert!(vrt::drops() == len + 1 && vrt::gd(1) && vrt::glive(0));
    kani::cover!(len == 3, "len 3");
    kani::cover!(len == 0, "empty");
} }

// @h props=C06,C05 fuc=Arc::from_header_and_slice note="copy-based: symbolic length, one symbolic index compared"
gproof! { fn c06_from_header_and_slice__u32() {
    let buf: [u32; 8] = kani::any();
    let len: usize = kani::any();
    kani::assume(len <= 8);
    let hd = Tr8::new();
    let hid = hd.id;
    let a = Arc::from_header_and_slice(hd, &buf[..len]);
    assert!(a.slice.len() == len && a.header.id == hid && cnt(&a) == 1);
    let i: usize = kani::any();
    kani::assume(i < 8);
    if i < len { assert!(a.slice[i] == buf[i]); }
    assert!(vrt::drops() == 0 && vrt::clones() == 0 && vrt::ga(1) && vrt::gd(0));
    drop(a);
    assert!(vrt::drops() == 1 && vrt::gd(1));
} }

// @h props=C06,C10 fuc=Arc::from_header_and_slice,ThinArc::from_header_and_slice note="element types whose size is a multiple (3x) of their alignment: every byte of every element arrives, fat and thin"
gproof! { fn c06_from_header_and_slice__size_above_align() {
    let buf: [[u16; 3]; 3] = kani::any();
    let len: usize = kani::any();
    kani::assume(len <= 3);
    let h: u8 = kani::any();
    let a = Arc::from_header_and_slice(h, &buf[..len]);
    let t = crate::ThinArc::from_header_and_slice(h, &buf[..len]);
    assert!(a.slice.len() == len && a.header == h && t.slice.len() == len && t.header.header == h);
    let i: usize = kani::any();
    kani::assume(i < 3);
    if i < len { assert!(a.slice[i] == buf[i] && t.slice[i] == buf[i]); }
    core::mem::forget(a);
    core::mem::forget(t);
} }

// @h props=C06 fuc=Arc::from_header_and_slice note="over-aligned element type, padding after a byte header"
gproof! { fn c06_from_header_and_slice__a16() {
    let buf = [S16a16::any(), S16a16::any(), S16a16::any()];
    let len: usize = kani::any();
    kani::assume(len <= 3);
    let h: u8 = kani::any();
    let a = Arc::from_header_and_slice(h, &buf[..len]);
    assert!(a.slice.len() == len && a.header == h);
    let i: usize = kani::any();
    kani::assume(i < 3);
    if i < len { assert!(a.slice[i] == buf[i]); }
    drop(a);
    assert!(vrt::gd(1));
} }

// @h props=C06,C05 bounded=len<=2,capacity<=len+1 fuc=Arc::from_header_and_vec
gproof! { #[kani::unwind(4)] fn c06_from_header_and_vec__tr() {
    let len: usize = kani::any();
    let spare: usize = kani::any();
    kani::assume(len <= 2 && spare <= 1);
    let mut v: Vec<Tr> = Vec::with_capacity(len + spare);
    let mut i = 0;
    let first = unsafe { vrt::NEXT_ID };
    while i < len { v.push(Tr::new()); i += 1; }
    let a0 = vrt::g_allocs();
    let hd = Tr8::new();
    let hid = hd.id;
    let a = Arc::from_header_and_vec(hd, v);
    assert!(a.slice.len() == len && a.header.id == hid && cnt(&a) == 1);
    let mut i = 0;
    while i < len { assert!(a.slice[i].id == first + i as u8); i += 1; }
    // the vector's storage is released (once, with its own layout) and none of its elements destroyed
    assert!(vrt::drops() == 0 && vrt::clones() == 0 && vrt::ga(a0 + 1));
    assert!(vrt::gd(if len + spare > 0 { 1 } else { 0 }) && vrt::glive(1));
    drop(a);
    assert!(vrt::drops() == len + 1 && vrt::glive(0));
} }

// @h props=C06,C01 bounded=len<=3 fuc=Arc::from_header_and_vec,Arc::from(Vec),Arc::drop note="ZERO-SIZED elements with a destructor moved out of a Vec: none destroyed by the constructor, each destroyed exactly once by the allocation"
gproof! { #[kani::unwind(6)] fn c06_from_vec__zero_sized_elements_with_drop() {
    let len: usize = kani::any();
    kani::assume(len <= 3);
    let mut v: Vec<Zd> = Vec::new();
    let mut i = 0;
    while i < len { v.push(Zd); i += 1; }
    let a: Arc<[Zd]> = Arc::from(v);
    assert!(a.len() == len && cnt(&a) == 1 && unsafe { vrt::ZDROPS } == 0 && vrt::glive(1));
    drop(a);
    assert!(unsafe { vrt::ZDROPS } == len && vrt::glive(0));
} }

// @h props=C06 bounded=len<=4 fuc=Arc::from_header_and_str
gproof! { #[kani::unwind(6)] fn c06_from_header_and_str() {
    let bytes: [u8; 4] = kani::any();
    let len: usize = kani::any();
    kani::assume(len <= 4);
    kani::assume(bytes[0] < 128 && bytes[1] < 128 && bytes[2] < 128 && bytes[3] < 128);
    let s = unsafe { core::str::from_utf8_unchecked(&bytes[..len]) };
    let hd = Tr8::new();
    let hid = hd.id;
    let a = Arc::from_header_and_str(hd, s);
    assert!(a.slice.len() == len && a.header.id == hid && cnt(&a) == 1);
    let i: usize = kani::any();
    kani::assume(i < 4);
    if i < len { assert!(a.slice.as_bytes()[i] == bytes[i]); }
    assert!(vrt::drops() == 0 && vrt::ga(1) && vrt::gd(0));
    core::mem::forget(a);
} }

// @h props=C06,C05 fuc=Arc::from(Box) note="boxed value moved, box storage released with Layout::new::<T>()"
gproof! { fn c06_arc_from_box__tr16() {
    let t = Tr16::new();
    let (id, v) = (t.id, t.v);
    let b = Box::new(t);
    let bp = &*b as *const Tr16 as usize;
    assert!(vrt::ga(1) && vrt::glive_at(bp));
    let a: Arc<Tr16> = Arc::from(b);
    assert!(a.id == id && a.v == v && cnt(&a) == 1);
    assert!(vrt::drops() == 0 && vrt::clones() == 0);
    assert!(vrt::ga(2) && vrt::gd(1) && !vrt::g_live(bp) && vrt::glive_at(base(&a)));
    drop(a);
    assert!(vrt::drops() == 1 && vrt::gd(2) && vrt::glive(0));
} }

// @h props=C06,C05,C01 fuc=Arc::from(Box) note="zero-sized boxed value: no box storage to release (nothing that was never allocated is handed to the allocator)"
gproof! { fn c06_arc_from_box__zst() {
    let b = Box::new(Zd);
    let a: Arc<Zd> = Arc::from(b);
    assert!(cnt(&a) == 1 && unsafe { vrt::ZDROPS } == 0 && vrt::ga(1) && vrt::gd(0));
    drop(a);
    assert!(unsafe { vrt::ZDROPS } == 1 && vrt::gd(1));
} }

// @h props=C06 fuc=Arc::from(Box) note="over-aligned boxed value"
gproof! { fn c06_arc_from_box__a64() {
    let val = S64a64::any();
    let a: Arc<S64a64> = Arc::from(Box::new(val));
    assert!(*a == val && cnt(&a) == 1 && data(&a) % 64 == 0 && vrt::ga(2) && vrt::gd(1));
    drop(a);
    assert!(vrt::gd(2) && vrt::glive(0));
} }

// @h props=C06 fuc=Arc::from(&[T]),Arc::from(HeaderSlice<(),T>) note="symbolic length, one symbolic index"
gproof! { fn c06_arc_from_slice__u32() {
    let buf: [u32; 8] = kani::any();
    let len: usize = kani::any();
    kani::assume(len <= 8);
    let a: Arc<[u32]> = Arc::from(&buf[..len]);
    assert!(a.len() == len && cnt(&a) == 1);
    let i: usize = kani::any();
    kani::assume(i < 8);
    if i < len { assert!(a[i] == buf[i]); }
    assert!(vrt::ga(1) && vrt::gd(0));
    drop(a);
    assert!(vrt::gd(1));
} }

// @h props=C06 bounded=len<=4 fuc=Arc::from(&str),Arc::from(String)
gproof! { #[kani::unwind(6)] fn c06_arc_from_str_and_string() {
    let bytes: [u8; 4] = kani::any();
    let len: usize = kani::any();
    kani::assume(len <= 4);
    kani::assume(bytes[0] < 128 && bytes[1] < 128 && bytes[2] < 128 && bytes[3] < 128);
    let s = unsafe { core::str::from_utf8_unchecked(&bytes[..len]) };
    let i: usize = kani::any();
    kani::assume(i < 4);
    if kani::any() {
        let a: Arc<str> = Arc::from(s);
        assert!(a.len() == len && cnt(&a) == 1 && vrt::ga(1));
        if i < len { assert!(a.as_bytes()[i] == bytes[i]); }
        core::mem::forget(a);
    } else {
        let owned = String::from(s);
        let a0 = vrt::g_allocs();
        let a: Arc<str> = Arc::from(owned);
        assert!(a.len() == len && cnt(&a) == 1);
        if i < len { assert!(a.as_bytes()[i] == bytes[i]); }
        // the String's own storage is released
        assert!(vrt::glive(1));
        core::mem::forget(a);
    }
} }

// @h props=C06 bounded=len<=2 fuc=Arc::from(Vec),Arc::from_header_and_vec
gproof! { #[kani::unwind(4)] fn c06_arc_from_vec__tr() {
    let len: usize = kani::any();
    kani::assume(len <= 2);
    let mut v: Vec<Tr> = Vec::new();
    let first = unsafe { vrt::NEXT_ID };
    let mut i = 0;
    while i < len { v.push(Tr::new()); i += 1; }
    let a: Arc<[Tr]> = Arc::from(v);
    assert!(a.len() == len && cnt(&a) == 1);
    let mut i = 0;
    while i < len { assert!(a[i].id == first + i as u8); i += 1; }
    assert!(vrt::drops() == 0 && vrt::clones() == 0 && vrt::glive(1));
    drop(a);
    assert!(vrt::drops() == len && vrt::glive(0));
} }

// @h props=C06 bounded=len<=3 fuc=Arc::from(Vec),Arc::from_header_and_vec note="zero-sized elements: contents clause with drop counts"
gproof! { #[kani::unwind(5)] fn c06_arc_from_vec__zst_elements() {
    let len: usize = kani::any();
    kani::assume(len <= 3);
    let mut v: Vec<Zd> = Vec::new();
    let mut i = 0;
    while i < len { v.push(Zd); i += 1; }
    let a: Arc<[Zd]> = Arc::from(v);
    assert!(a.len() == len && unsafe { vrt::ZDROPS } == 0);
    drop(a);
    assert!(unsafe { vrt::ZDROPS } == len && vrt::glive(0));
} }

// @h props=C06 kind=panic site="Need to think about ZST| in .*from_header_and_(iter|slice)" fuc=Arc::from_header_and_iter note="zero-sized element type refused up front"
gpanic! { fn c06_from_header_and_iter_zst_refused() {
    unsafe { vrt::G_FORBID_ALLOC = true; }
    let a = Arc::from_header_and_iter(1u8, core::iter::empty::<Z>());
} }

// @h props=C06 kind=panic site="Need to think about ZST| in .*from_header_and_(iter|slice)" fuc=Arc::from_header_and_slice
gpanic! { fn c06_from_header_and_slice_zst_refused() {
    unsafe { vrt::G_FORBID_ALLOC = true; }
    let a = Arc::from_header_and_slice(1u8, &[Z, Z]);
} }

// @h props=C06 bounded=len<=3 fuc=Arc::from_iter,UniqueArc::from_iter,IteratorAsExactSizeIterator note="exact size hint: fast path"
gproof! { #[kani::unwind(5)] fn c06_arc_from_iter_exact() {
    let len: usize = kani::any();
    kani::assume(len <= 3);
    let first = unsafe { vrt::NEXT_ID };
    let a: Arc<[Tr]> = Arc::from_iter(TrIter::new(len));
    assert!(a.len() == len && cnt(&a) == 1);
    let mut i = 0;
    while i < len { assert!(a[i].id == first + i as u8); i += 1; }
    assert!(vrt::drops() == 0 && vrt::clones() == 0 && vrt::ga(1) && vrt::gd(0));
    drop(a);
    assert!(vrt::drops() == len && vrt::glive(0));
} }

/// iterator with an inexact size hint (lower < upper, or unknown upper)
pub(crate) struct Inexact { left: usize, unknown: bool }
impl Iterator for Inexact {
    type Item = Tr;
    fn next(&mut self) -> Option<Tr> { if self.left == 0 { None } else { self.left -= 1; Some(Tr::new()) } }
    fn size_hint(&self) -> (usize, Option<usize>) { if self.unknown { (0, None) } else { (0, Some(self.left + 1)) } }
}

// @h props=C06 bounded=len<=2 fuc=Arc::from_iter,UniqueArc::from_iter,Arc::from(Vec) note="inexact and unknown size hints take the Vec path"
gproof! { #[kani::unwind(6)] fn c06_arc_from_iter_inexact() {
    let len: usize = kani::any();
    kani::assume(len <= 2);
    let first = unsafe { vrt::NEXT_ID };
    let a: Arc<[Tr]> = Arc::from_iter(Inexact { left: len, unknown: kani::any() });
    assert!(a.len() == len && cnt(&a) == 1);
    let mut i = 0;
    while i < len { assert!(a[i].id == first + i as u8); i += 1; }
    assert!(vrt::drops() == 0 && vrt::clones() == 0 && vrt::glive(1));
    drop(a);
    assert!(vrt::drops() == len && vrt::glive(0));
} }

// @h props=C06 bounded=len==9 fuc=Arc::from_iter,UniqueArc::from_iter,Arc::from(Vec) note="inexact hint, 9 elements: beyond the Vec growth steps 4 and 8 (two reallocations on the way) and beyond any small-sequence boundary up to 8"
gproof! { #[kani::unwind(12)] fn c06_arc_from_iter_inexact_len9() {
    let first = unsafe { vrt::NEXT_ID };
    let a: Arc<[Tr]> = Arc::from_iter(Inexact { left: 9, unknown: kani::any() });
    assert!(a.len() == 9 && cnt(&a) == 1);
    let i: usize = kani::any();
    kani::assume(i < 9);
    assert!(a[i].id == first + i as u8);
    assert!(vrt::drops() == 0 && vrt::clones() == 0 && vrt::glive(1));
    drop(a);
    assert!(vrt::drops() == 9 && vrt::glive(0));
} }

/// inexact iterator of zero-sized items with a destructor
pub(crate) struct InexactZd { pub left: usize }
impl Iterator for InexactZd {
    type Item = Zd;
    fn next(&mut self) -> Option<Zd> { if self.left == 0 { None } else { self.left -= 1; Some(Zd) } }
    fn size_hint(&self) -> (usize, Option<usize>) { (0, None) }
}
// @h props=C06 bounded=len<=3 fuc=Arc::from_iter,UniqueArc::from_iter note="zero-sized items WITH a destructor through the inexact path: none destroyed by the constructor, each destroyed exactly once by the allocation"
gproof! { #[kani::unwind(6)] fn c06_arc_from_iter_inexact__zero_sized_with_drop() {
    let len: usize = kani::any();
    kani::assume(len <= 3);
    let a: Arc<[Zd]> = Arc::from_iter(InexactZd { left: len });
    assert!(a.len() == len && cnt(&a) == 1 && unsafe { vrt::ZDROPS } == 0);
    drop(a);
    assert!(unsafe { vrt::ZDROPS } == len && vrt::glive(0));
} }

// @h props=C06 fuc=Arc::default,Arc::from(T)
gproof! { fn c06_arc_default_and_from_value() {
    let d: Arc<u32> = Arc::default();
    assert!(*d == 0 && cnt(&d) == 1);
    let t = Tr8::new();
    let id = t.id;
    let a: Arc<Tr8> = Arc::from(t);
    assert!(a.id == id && cnt(&a) == 1 && vrt::drops() == 0 && vrt::clones() == 0 && vrt::ga(2));
    core::mem::forget(a);
    core::mem::forget(d);
} }

// @h props=C06,C01,C05 fuc=Arc::from(HeaderSlice<(),T>),Arc<HeaderSlice<(),T>>::from(Arc<T>) note="header erasure both ways"
gproof! { fn c06_header_erasure_roundtrip() {
    let n = any_count();
    let buf: [u32; 6] = kani::any();
    let len: usize = kani::any();
    kani::assume(len <= 6);
    let hs: Arc<HeaderSlice<(), [u32]>> = Arc::from_header_and_slice((), &buf[..len]);
    set_cnt(&hs, n);
    let (b0, d0, c0) = (base(&hs), data(&hs), cw(&hs));
    let plain: Arc<[u32]> = hs.into();
    assert!(base(&plain) == b0 && cnt(&plain) == n && plain.len() == len && data(&plain) == d0);
    let i: usize = kani::any();
    kani::assume(i < 6);
    if i < len { assert!(plain[i] == buf[i]); }
    let back: Arc<HeaderSlice<(), [u32]>> = plain.into();
    assert!(base(&back) == b0 && cnt(&back) == n && back.slice.len() == len);
    assert!(vrt::ga(1) && vrt::gd(0));
    if n == 1 { drop(back); assert!(vrt::gd(1) && vrt::glive(0)); } else { core::mem::forget(back); }
} }

// @h props=C05,C01 fuc=Arc::from(HeaderSlice<(),T>),Arc::drop note="release after header erasure uses the original layout"
gproof! { fn c05_release_after_header_erasure__str() {
    let a: Arc<str> = Arc::from("hello");
    assert!(a.len() == 5 && vrt::ga(1));
    drop(a);
    assert!(vrt::gd(1) && vrt::glive(0));
} }

// ------------------------------------------------------------------------------------------
// C07: lying iterators and allocation failure
// ------------------------------------------------------------------------------------------

// @h props=C07 kind=maypanic bounded=reported,actual<=3 site="expect_failed|ExactSizeIterator (over|under)-reported length| in .*from_header_and_iter" fuc=Arc::from_header_and_iter
gmay! { #[kani::unwind(6)] fn c07_from_header_and_iter_lying_len() {
    let (r, a): (usize, usize) = (kani::any(), kani::any());
    kani::assume(r <= 3 && a <= 3 && r != a);
    let hd = Tr8::new();
    let hid = hd.id;
    let arc = Arc::from_header_and_iter(hd, TrIter::lying(r, a));
    // if it returns at all: every slot holds a distinct issued, undropped element
    let n = arc.slice.len();
    let mut i = 0;
    while i < n {
        assert!(vrt::issued(arc.slice[i].id) && !vrt::dropped(arc.slice[i].id));
        let mut j = 0;
        while j < i { assert!(arc.slice[j].id != arc.slice[i].id); j += 1; }
        i += 1;
    }
    assert!(cnt(&arc) == 1 && arc.header.id == hid);
    drop(arc);
    assert!(vrt::drops() == n + 1);
} }

/// ExactSizeIterator whose len()/size_hint() answers change between calls
pub(crate) struct Fickle { left: usize, answers: [usize; 4], asked: usize }
impl Iterator for Fickle {
    type Item = Tr;
    fn next(&mut self) -> Option<Tr> { if self.left == 0 { None } else { self.left -= 1; Some(Tr::new()) } }
    fn size_hint(&self) -> (usize, Option<usize>) { let l = self.answers[self.asked % 4]; (l, Some(l)) }
}
impl ExactSizeIterator for Fickle {
    fn len(&self) -> usize {
        let s = self as *const Fickle as *mut Fickle;
        let l = self.answers[self.asked % 4];
        unsafe { (*s).asked += 1; }
        l
    }
}

// @h props=C07,C10 kind=maypanic bounded=lengths<=2 site="expect_failed|ExactSizeIterator (over|under)-reported length|Length needs to be correct| in .*(from_header_and_iter|into_thin)" fuc=ThinArc::from_header_and_iter,Arc::into_thin note="len() answers differ between the two calls"
gmay! { #[kani::unwind(5)] fn c07_thin_from_iter_fickle_len() {
    let a: usize = kani::any();
    let answers: [usize; 4] = kani::any();
    kani::assume(a <= 2 && answers[0] <= 2 && answers[1] <= 2 && answers[2] <= 2 && answers[3] <= 2);
    let t = ThinArc::from_header_and_iter(7u16, Fickle { left: a, answers, asked: 0 });
    // if a ThinArc comes out, its recorded length is the true length
    let n = t.slice.len();
    assert!(t.header.length == n && crate::thin_arc::kani_h::tvalid(&t));
    let mut i = 0;
    while i < n { assert!(vrt::issued(t.slice[i].id) && !vrt::dropped(t.slice[i].id)); i += 1; }
    drop(t);
    assert!(vrt::drops() == n);
} }

/// Iterator (not ExactSize) whose size_hint claims exactness but lies
pub(crate) struct LyingHint { left: usize, claim: usize }
impl Iterator for LyingHint {
    type Item = Tr;
    fn next(&mut self) -> Option<Tr> { if self.left == 0 { None } else { self.left -= 1; Some(Tr::new()) } }
    fn size_hint(&self) -> (usize, Option<usize>) { (self.claim, Some(self.claim)) }
}

// @h props=C07 kind=maypanic bounded=claim,actual<=3 site="expect_failed|ExactSizeIterator (over|under)-reported length| in .*from_header_and_iter" fuc=Arc::from_iter,UniqueArc::from_iter,IteratorAsExactSizeIterator
gmay! { #[kani::unwind(6)] fn c07_arc_from_iter_lying_hint() {
    let (claim, actual): (usize, usize) = (kani::any(), kani::any());
    kani::assume(claim <= 3 && actual <= 3 && claim != actual);
    let arc: Arc<[Tr]> = Arc::from_iter(LyingHint { left: actual, claim });
    let n = arc.len();
    let mut i = 0;
    while i < n { assert!(vrt::issued(arc[i].id) && !vrt::dropped(arc[i].id)); i += 1; }
    assert!(cnt(&arc) == 1);
    drop(arc);
    assert!(vrt::drops() == n);
} }

// @h props=C07 kind=panic site="__rust_alloc_error_handler|handle_alloc_error" fuc=Arc::allocate_for_layout note="allocation failure ends in the allocation-error path, null never dereferenced"
gpanic! { fn c07_allocate_for_layout_failure_alloc_error() {
    unsafe { vrt::G_FAIL_AT = 1; }
    let p = unsafe { Arc::<u64>::allocate_for_layout(Layout::new::<u64>(), |mem| mem as *mut ArcInner<u64>) };
} }

// @h props=C07 kind=panic site="__rust_alloc_error_handler|handle_alloc_error" fuc=Arc::from_header_and_slice,Arc::allocate_for_header_and_slice
gpanic! { fn c07_from_header_and_slice_failure_alloc_error() {
    unsafe { vrt::G_FAIL_AT = 1; }
    let a = Arc::from_header_and_slice(1u16, &[1u32, 2, 3]);
} }

// @h props=C07 kind=panic site="__rust_alloc_error_handler|handle_alloc_error" fuc=UniqueArc::new_uninit
gpanic! { fn c07_new_uninit_failure_alloc_error() {
    unsafe { vrt::G_FAIL_AT = 1; }
    let u: UniqueArc<MaybeUninit<S16a16>> = UniqueArc::new_uninit();
} }

// @h props=C07 kind=panic site="__rust_alloc_error_handler|handle_alloc_error" fuc=Arc::from(Box) note="failure at the second allocation (the box already exists)"
gpanic! { fn c07_from_box_failure_alloc_error() {
    let b = Box::new(S9a8::any());
    unsafe { vrt::G_FAIL_AT = vrt::G_ALLOCS + 1; }
    let a: Arc<S9a8> = Arc::from(b);
} }

// @h props=C07 fuc=Arc::make_mut note="state when the user's Clone runs: handle not yet modified (necessary condition for unwind safety)"
gproof! { fn c07_make_mut_clone_sees_unmodified_handle() {
    let n = any_count();
    kani::assume(n > 1);
    let mut a = mk(Obs { slot: core::ptr::null(), b0: 0, n: 0 }, n);
    let me = &a as *const Arc<Obs>;
    unsafe { let p = Arc::as_ptr(&a) as *mut Obs; (*p).slot = me; (*p).b0 = base(&a); (*p).n = n; }
    let _ = Arc::make_mut(&mut a);
    assert!(unsafe { OBS_CALLS } == 1 && unsafe { OBS_OK });
    core::mem::forget(a);
} }
pub(crate) static mut OBS_CALLS: usize = 0;
pub(crate) static mut OBS_OK: bool = false;
pub(crate) struct Obs { slot: *const Arc<Obs>, b0: usize, n: usize }
impl Clone for Obs {
    fn clone(&self) -> Self {
        unsafe {
            OBS_CALLS += 1;
            // *this still refers to the old block with its count untouched while Clone runs
            OBS_OK = base(&*self.slot) == self.b0 && cnt(&*self.slot) == self.n;
        }
        Obs { slot: self.slot, b0: self.b0, n: self.n }
    }
}

// ------------------------------------------------------------------------------------------
// C14 on the header-slice payload types: equality, ordering and hashing mutually consistent on
// every publicly constructible value (all fields are pub: the recorded length is free)
// ------------------------------------------------------------------------------------------
pub(crate) type Hwl = HeaderSlice<HeaderWithLength<u8>, [u8; 2]>;
fn hwl_consistent(x: &Hwl, y: &Hwl) -> bool {
    use core::cmp::Ordering::*;
    let c = x.cmp(y);
    (x == y) == (c == Equal)
        && (x != y) == (c != Equal)
        && x.partial_cmp(y) == Some(c)
        && (x < y) == (c == Less)
        && (x <= y) == (c != Greater)
        && (x > y) == (c == Greater)
        && (x >= y) == (c != Less)
}

// @h props=C14 fuc=HeaderSlice::partial_cmp,HeaderSlice::cmp note="recorded lengths equal: ==, !=, <, <=, >, >=, partial_cmp, cmp agree; order is header then slice"
gproof! { fn c14_headerslice_ord_eq_consistent_same_recorded_len() {
    let (h1, h2, l): (u8, u8, usize) = (kani::any(), kani::any(), kani::any());
    let (s1, s2): ([u8; 2], [u8; 2]) = (kani::any(), kani::any());
    let x: Hwl = HeaderSlice { header: HeaderWithLength::new(h1, l), slice: s1 };
    let y: Hwl = HeaderSlice { header: HeaderWithLength::new(h2, l), slice: s2 };
    assert!(hwl_consistent(&x, &y));
    assert!(x.cmp(&y) == (h1, s1).cmp(&(h2, s2)));
    let keep = Arc::new(0u8);
    core::mem::forget(keep);
} }

// @h props=C14 fuc=HeaderSlice::partial_cmp,HeaderSlice::cmp note="statement of C14: consistent on EVERY publicly constructible value, recorded lengths unequal included"
gproof! { fn c14_headerslice_ord_eq_consistent_any_recorded_len() {
    let (h1, h2, l1, l2): (u8, u8, usize, usize) = (kani::any(), kani::any(), kani::any(), kani::any());
    let (s1, s2): ([u8; 2], [u8; 2]) = (kani::any(), kani::any());
    let x: Hwl = HeaderSlice { header: HeaderWithLength::new(h1, l1), slice: s1 };
    let y: Hwl = HeaderSlice { header: HeaderWithLength::new(h2, l2), slice: s2 };
    assert!(hwl_consistent(&x, &y), "F1 HeaderSlice<HeaderWithLength<H>,T>: == and the ordering disagree");
    // header then slice decides whenever they differ
    if (h1, s1) != (h2, s2) { assert!(x.cmp(&y) == (h1, s1).cmp(&(h2, s2))); }
    let keep = Arc::new(0u8);
    core::mem::forget(keep);
} }

// @h props=C14 fuc=HeaderSlice::hash,HeaderSlice::eq note="equal header-slice values hash equally (derived impls)"
gproof! { #[kani::unwind(4)] fn c14_headerslice_hash_equal_for_equal() {
    use core::hash::Hash;
    let (h1, h2, l1, l2): (u8, u8, usize, usize) = (kani::any(), kani::any(), kani::any(), kani::any());
    let (s1, s2): ([u8; 2], [u8; 2]) = (kani::any(), kani::any());
    let x: Hwl = HeaderSlice { header: HeaderWithLength::new(h1, l1), slice: s1 };
    let y: Hwl = HeaderSlice { header: HeaderWithLength::new(h2, l2), slice: s2 };
    kani::assume(x == y);
    let keep = Arc::new(0u8);
    core::mem::forget(keep);
    assert!(h1 == h2 && l1 == l2 && s1 == s2);
} }

// ------------------------------------------------------------------------------------------
// thorough tier: the element-loop obligations again with a larger bound
// ------------------------------------------------------------------------------------------
// @h props=C06,C05 tier=thorough bounded=len<=6 fuc=Arc::from_header_and_iter
gproof! { #[kani::unwind(8)] fn c06_from_header_and_iter__tr_len6() {
    let len: usize = kani::any();
    kani::assume(len <= 6);
    let hd = Tr8::new();
    let hid = hd.id;
    let a = Arc::from_header_and_iter(hd, TrIter::new(len));
    assert!(a.slice.len() == len && a.header.id == hid && cnt(&a) == 1);
    let mut i = 0;
    while i < len { assert!(a.slice[i].id == hid + 1 + i as u8 && !vrt::dropped(a.slice[i].id)); i += 1; }
    assert!(vrt::drops() == 0 && vrt::clones() == 0 && vrt::ga(1) && vrt::gd(0));
    drop(a);
    assert!(vrt::drops() == len + 1 && vrt::gd(1) && vrt::glive(0));
} }

// @h props=C07 tier=thorough kind=maypanic bounded=reported,actual<=5 site="expect_failed|ExactSizeIterator (over|under)-reported length| in .*from_header_and_iter" fuc=Arc::from_header_and_iter
gmay! { #[kani::unwind(8)] fn c07_from_header_and_iter_lying_len5() {
    let (r, a): (usize, usize) = (kani::any(), kani::any());
    kani::assume(r <= 5 && a <= 5 && r != a && (if r > a { r - a } else { a - r }) <= 2);
    let arc = Arc::from_header_and_iter(Tr8::new(), TrIter::lying(r, a));
    let n = arc.slice.len();
    let mut i = 0;
    while i < n { assert!(vrt::issued(arc.slice[i].id) && !vrt::dropped(arc.slice[i].id)); i += 1; }
    drop(arc);
    assert!(vrt::drops() == n + 1);
} }

// @h props=C14 fuc=HeaderSlice::partial_cmp note="partially ordered elements (f32 incl. NaN): the value orders as its header followed by its slice - a decided header is not undone by incomparable slices"
gproof! { fn c14_headerslice_partial_cmp_f32_matches_tuple() {
    let (h1, h2): (u8, u8) = (kani::any(), kani::any());
    let (s1, s2): ([f32; 2], [f32; 2]) = (kani::any(), kani::any());
    let l: usize = kani::any();
    let x: HeaderSlice<HeaderWithLength<u8>, [f32; 2]> = HeaderSlice { header: HeaderWithLength::new(h1, l), slice: s1 };
    let y: HeaderSlice<HeaderWithLength<u8>, [f32; 2]> = HeaderSlice { header: HeaderWithLength::new(h2, l), slice: s2 };
    let want = (h1, s1).partial_cmp(&(h2, s2));
    assert!(x.partial_cmp(&y) == want);
    assert!((x < y) == (want == Some(core::cmp::Ordering::Less)) && (x >= y) == matches!(want, Some(core::cmp::Ordering::Greater) | Some(core::cmp::Ordering::Equal)));
    let keep = Arc::new(0u8);
    core::mem::forget(keep);
} }
