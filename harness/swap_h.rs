// child module of src/arc_swap_support.rs (arc-swap feature): RefCnt glue
#![allow(dead_code, unused_imports, unused_unsafe, static_mut_refs, unused_variables, unused_mut)]
use crate::arc::Arc;
use crate::thin_arc::ThinArc;
use crate::vrt;
use crate::vrt::{any_count, base, cnt, cw, data, mk, rd, set_cnt, S16a16, Tr8};
use arc_swap::RefCnt;

// @h props=C11,C01,C04 features=unsize,arc-swap fuc=RefCnt::into_ptr,RefCnt::as_ptr,RefCnt::from_ptr(Arc)
gproof! { fn c11_refcnt_arc_roundtrip() {
    let n = any_count();
    let x = mk(S16a16::any(), n);
    let (b0, d0) = (base(&x), data(&x));
    assert!(<Arc<S16a16> as RefCnt>::as_ptr(&x) as usize == d0);
    let p = <Arc<S16a16> as RefCnt>::into_ptr(x);
    assert!(p as usize == d0);
    let y = unsafe { <Arc<S16a16> as RefCnt>::from_ptr(p) };
    assert!(base(&y) == b0 && cnt(&y) == n && vrt::ga(1) && vrt::gd(0));
    core::mem::forget(y);
} }

// @h props=C11,C01,C04 features=unsize,arc-swap fuc=RefCnt::into_ptr,RefCnt::as_ptr,RefCnt::from_ptr(ThinArc)
gproof! { fn c11_refcnt_thin_roundtrip() {
    let n = any_count();
    let (t, len, h, buf) = crate::thin_arc::kani_h::mk_thin_u32(n);
    let (b0, c0) = (crate::thin_arc::kani_h::tbase(&t), crate::thin_arc::kani_h::tcw(&t));
    let ap = <ThinArc<u16, u32> as RefCnt>::as_ptr(&t);
    let p = <ThinArc<u16, u32> as RefCnt>::into_ptr(t);
    assert!(p == ap && rd(c0) == n);
    let t2 = unsafe { <ThinArc<u16, u32> as RefCnt>::from_ptr(p) };
    assert!(crate::thin_arc::kani_h::tbase(&t2) == b0 && rd(c0) == n && t2.slice.len() == len && vrt::ga(1) && vrt::gd(0));
    core::mem::forget(t2);
} }

// @h props=C11 finding=F3 features=unsize,arc-swap fuc=RefCnt::as_ptr(ThinArc) note="statement of C11: the arc-swap form returns the address at which the value itself lives"
gproof! { fn c11_refcnt_thin_as_ptr_value_addr() {
    let (t, len, h, buf) = crate::thin_arc::kani_h::mk_thin_u32(1);
    let value_addr = vrt::addr(&*t as *const crate::header::HeaderSliceWithLengthUnchecked<u16, u32>);
    assert!(<ThinArc<u16, u32> as RefCnt>::as_ptr(&t) as usize == value_addr, "F3 RefCnt::as_ptr for ThinArc is not the address Deref yields");
    core::mem::forget(t);
} }

// @h props=C04,C01,C03,C08,C09 features=unsize,arc-swap fuc=RefCnt::inc(Arc) note="provided RefCnt::inc: one more owner, returns the pointer as_ptr gives"
gproof! { fn c04_refcnt_arc_inc() {
    let n = any_count();
    let x = mk(S16a16::any(), n);
    let c0 = cw(&x);
    let p = <Arc<S16a16> as RefCnt>::inc(&x);
    assert!(p == <Arc<S16a16> as RefCnt>::as_ptr(&x) && rd(c0) == n + 1 && vrt::ga(1) && vrt::gd(0));
    core::mem::forget(x);
} }
// @h props=C04,C01,C03,C08,C09 features=unsize,arc-swap fuc=RefCnt::inc(ThinArc) note="provided RefCnt::inc: one more owner (what ArcSwap::load_full hands out is a counted handle)"
gproof! { fn c04_refcnt_thin_inc() {
    let n = any_count();
    let (t, len, h, buf) = crate::thin_arc::kani_h::mk_thin_u32(n);
    let c0 = crate::thin_arc::kani_h::tcw(&t);
    let p = <ThinArc<u16, u32> as RefCnt>::inc(&t);
    assert!(p == <ThinArc<u16, u32> as RefCnt>::as_ptr(&t) && rd(c0) == n + 1 && vrt::ga(1) && vrt::gd(0));
    core::mem::forget(t);
} }

// @h props=C04,C01 features=unsize,arc-swap fuc=RefCnt::dec(Arc),RefCnt::dec(ThinArc) note="provided RefCnt::dec: exactly one owner fewer; the last one destroys and frees"
gproof! { fn c04_refcnt_dec() {
    let n = any_count();
    let x = mk(Tr8::new(), n);
    let (b0, c0, id) = (base(&x), cw(&x), x.id);
    let p = <Arc<Tr8> as RefCnt>::into_ptr(x);
    unsafe { <Arc<Tr8> as RefCnt>::dec(p); }
    if n == 1 { assert!(!vrt::g_live(b0) && vrt::dropped(id) && vrt::drops() == 1 && vrt::gd(1)); } else { assert!(rd(c0) == n - 1 && vrt::drops() == 0 && vrt::gd(0)); }
    let m = any_count();
    let (t, len, h, buf) = crate::thin_arc::kani_h::mk_thin_u32(m);
    let (tb, tc) = (crate::thin_arc::kani_h::tbase(&t), crate::thin_arc::kani_h::tcw(&t));
    let d0 = vrt::g_deallocs();
    let tp = <ThinArc<u16, u32> as RefCnt>::into_ptr(t);
    unsafe { <ThinArc<u16, u32> as RefCnt>::dec(tp); }
    if m == 1 { assert!(!vrt::g_live(tb) && vrt::g_deallocs() == d0 + 1 && vrt::g_ok()); } else { assert!(rd(tc) == m - 1 && vrt::g_deallocs() == d0); }
} }
