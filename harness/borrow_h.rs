// child module of src/arc_borrow.rs
#![allow(dead_code, unused_imports, unused_unsafe, static_mut_refs, unused_variables, unused_mut)]
use crate::arc::Arc;
use crate::arc_borrow::ArcBorrow;
use crate::vrt;
use crate::vrt::{any_count, base, cnt, cw, data, mk, rd, set_cnt, Tr, Tr16, Tr8, Zd, S1, S16a16, S9a8, Z};

macro_rules! h_borrow_clone_arc {
    ($name:ident, $T:ty, $v:expr) => {
        gproof! { fn $name() {
            let n = any_count();
            let a = mk($v, n);
            let (b0, d0, c0) = (base(&a), data(&a), cw(&a));
            let p0 = vrt::p_snap();
            let b = a.borrow_arc();
            let c = b.clone_arc();
            assert!(base(&c) == b0 && cnt(&c) == n + 1 && cnt(&a) == n + 1);
            assert!(vrt::addr(&*c as *const $T) == d0);
            assert!(vrt::p_same(p0) && vrt::ga(1) && vrt::gd(0));
            core::mem::forget(a);
            core::mem::forget(c);
        } }
    };
}
// @h props=C01,C04,C16,C03,C08,C09 fuc=ArcBorrow::clone_arc,Arc::from_raw,Arc::clone
h_borrow_clone_arc!(c01_borrow_clone_arc__tr8, Tr8, Tr8::new());
// @h props=C01,C04,C16 fuc=ArcBorrow::clone_arc,Arc::from_raw,Arc::clone
h_borrow_clone_arc!(c01_borrow_clone_arc__a16, S16a16, S16a16::any());
// @h props=C01,C04,C16 tier=thorough fuc=ArcBorrow::clone_arc,Arc::from_raw,Arc::clone
h_borrow_clone_arc!(c01_borrow_clone_arc__zst, Z, Z);

// @h props=C01,C04 fuc=ArcBorrow::with_arc,Arc::clone,Arc::drop
gproof! { fn c04_borrow_with_arc_callback() {
    let n = any_count();
        let a = mk(Tr8::new(), n);
    let (b0, id, c0) = (base(&a), a.id, cw(&a));
    let b = a.borrow_arc();
    let keep: bool = kani::any();
    let seen = b.with_arc(|t| {
        let inside = Arc::count(t);
        assert!(base(t) == b0 && t.id == id && ArcBorrow::strong_count(&b) == inside);
        let c = t.clone();
        assert!(Arc::count(t) == inside + 1);
        if keep { core::mem::forget(c); } else { drop(c); }
        inside
    });
    assert!(seen == n && cnt(&a) == if keep { n + 1 } else { n });
    assert!(vrt::drops() == 0 && vrt::ga(1) && vrt::gd(0));
    core::mem::forget(a);
} }

// @h props=C11,C01 fuc=ArcBorrow::from_ptr,ArcBorrow::get,ArcBorrow::clone_arc
gproof! { fn c11_borrow_from_ptr_roundtrip() {
    let n = any_count();
    let a = mk(Tr16::new(), n);
    let (b0, d0, id, c0) = (base(&a), data(&a), a.id, cw(&a));
    let p = Arc::as_ptr(&a);
    let b = unsafe { ArcBorrow::from_ptr(p) };
    assert!(unsafe { core::mem::transmute_copy::<ArcBorrow<Tr16>, usize>(&b) } == d0);
    assert!(core::mem::size_of::<ArcBorrow<Tr16>>() == core::mem::size_of::<usize>());
    assert!(core::mem::size_of::<Option<ArcBorrow<Tr16>>>() == core::mem::size_of::<usize>());
    assert!(b.get() as *const Tr16 == p && b.id == id && ArcBorrow::strong_count(&b) == n);
    let c = b.clone_arc();
    assert!(base(&c) == b0 && cnt(&c) == n + 1);
    core::mem::forget(a);
    core::mem::forget(c);
} }

// @h props=C16 kind=panic site="abort" fuc=ArcBorrow::clone_arc
gpanic! { fn c16_borrow_clone_arc_overflow_aborts() {
    let n = vrt::overflow_count();
    let a = mk(S1::any(), n);
    let c = a.borrow_arc().clone_arc();
    core::mem::forget(a);
    core::mem::forget(c);
} }

// @h props=C16 kind=panic site="abort" fuc=ArcBorrow::with_arc,Arc::clone note="clone inside a borrow callback"
gpanic! { fn c16_clone_inside_borrow_with_arc_overflow_aborts() {
    let n = vrt::overflow_count();
    let a = mk(S1::any(), n);
    a.borrow_arc().with_arc(|t| { let c = t.clone(); core::mem::forget(c); });
    core::mem::forget(a);
} }

// @h props=C14 fuc=ArcBorrow::eq note="statement of C14: comparing ArcBorrows gives the same answer as comparing the values they hold"
gproof! { fn c14_arcborrow_eq_by_value() {
    let (x, y): (u8, u8) = (kani::any(), kani::any());
    let (a, b) = (Arc::new(x), Arc::new(y));
    let (ba, bb) = (a.borrow_arc(), b.borrow_arc());
    assert!((ba == bb) == (x == y), "F2 ArcBorrow == is not value equality");
    assert!((ba != bb) == (x != y), "F2 ArcBorrow != is not value inequality");
    core::mem::forget(a);
    core::mem::forget(b);
} }

// @h props=C14 fuc=ArcBorrow::fmt note="statement of C14: formatting an ArcBorrow formats the value it holds"
gproof! { fn c14_arcborrow_debug_by_value() {
    use crate::vrt::{Ip, OP_DEBUG};
    let a = Arc::new(Ip(kani::any()));
    let b = a.borrow_arc();
    unsafe { vrt::IP_FMT_OK = kani::any(); }
    let ok = vrt::debug_ok(&b);
    assert!(vrt::ip_calls(OP_DEBUG) == 1 && vrt::ip_args(data(&a), unsafe { vrt::FMT_ADDR }), "F2 ArcBorrow Debug does not format the value");
    assert!(ok == unsafe { vrt::IP_FMT_OK }, "F2 ArcBorrow Debug does not return the value's result");
    core::mem::forget(a);
} }

// ---- check mode (proof_for_contract) ----
// @h props=C04 mode=check fuc=ArcBorrow::strong_count
#[kani::proof_for_contract(ArcBorrow::<S9a8>::strong_count)]
fn c04_chk_borrow_strong_count() {
    vrt::ghost_reset();
    let a = mk(S9a8::any(), any_count());
    let b = a.borrow_arc();
    let _ = ArcBorrow::strong_count(&b);
    kani::cover!(true, "END");
    core::mem::forget(a);
}
// @h props=C11 mode=check fuc=ArcBorrow::get
#[kani::proof_for_contract(ArcBorrow::<S9a8>::get)]
fn c11_chk_borrow_get() {
    vrt::ghost_reset();
    let a = mk(S9a8::any(), any_count());
    let b = a.borrow_arc();
    let _ = b.get();
    kani::cover!(true, "END");
    core::mem::forget(a);
}
