// child module of src/arc_union.rs: sees ArcUnion.p and ArcUnion::new.
#![allow(dead_code, unused_imports, unused_unsafe, static_mut_refs, unused_variables, unused_mut)]
use crate::arc::Arc;
use crate::arc_borrow::ArcBorrow;
use crate::arc_union::{ArcUnion, ArcUnionBorrow};
use crate::vrt;
use crate::vrt::{any_count, base, cnt, cw, data, mk, rd, set_cnt, Tr, Tr16, Tr8, Zd, S1, S16a16, S9a8, Z};

pub(crate) fn word<A, B>(u: &ArcUnion<A, B>) -> usize {
    u.p.as_ptr() as usize
}
/// block of the variant the TAG says is held (first: untagged word; second: bit 0 set)
pub(crate) fn ubase<A, B>(u: &ArcUnion<A, B>) -> usize {
    let w = word(u);
    if w & 1 == 0 {
        w - vrt::spec_off(core::mem::align_of::<A>())
    } else {
        (w & !1) - vrt::spec_off(core::mem::align_of::<B>())
    }
}
/// count word of that block, by pointer arithmetic on the stored (possibly tagged) pointer
pub(crate) fn ucw<A, B>(u: &ArcUnion<A, B>) -> vrt::Cw {
    let p = u.p.as_ptr() as *const u8;
    if word(u) & 1 == 0 {
        p.wrapping_sub(vrt::spec_off(core::mem::align_of::<A>())) as vrt::Cw
    } else {
        p.wrapping_sub(1 + vrt::spec_off(core::mem::align_of::<B>())) as vrt::Cw
    }
}
pub(crate) fn ucnt<A, B>(u: &ArcUnion<A, B>) -> usize {
    vrt::rd(ucw(u))
}
pub(crate) fn uvalid<A, B>(u: &ArcUnion<A, B>) -> bool {
    word(u) >= 16 && vrt::glive_at(ubase(u)) && ucnt(u) >= 1
}

// ------------------------------------------------------------------------------------------
// C12 (and C01/C04/C05 for the union handle kind). ONE library operation that dereferences
// through the tagged word per harness: a harness that called from_second + borrow + as_second +
// strong_count took 834 s and 26 GB; split up they take seconds to a minute each.
// kinds of the tracked witness types (vrt::drops_kind): Tr=0 (align 1), Tr8=1, Tr16=2, Tr64=3.
// ------------------------------------------------------------------------------------------
macro_rules! u_from_first { ($name:ident, $A:ty, $B:ty, $mka:expr) => { gproof! { fn $name() {
    let n = any_count();
    let a: Arc<$A> = mk($mka, n);
    let (b0, d0, c0) = (base(&a), data(&a), cw(&a));
    let p0 = vrt::p_snap();
    let u: ArcUnion<$A, $B> = ArcUnion::from_first(a);
    assert!(u.is_first() && !u.is_second());
    assert!(word(&u) == d0 && rd(c0) == n);
    assert!(vrt::p_same(p0) && vrt::ga(1) && vrt::gd(0));
    core::mem::forget(u);
} } }; }
macro_rules! u_from_second { ($name:ident, $A:ty, $B:ty, $mkb:expr) => { gproof! { fn $name() {
    let n = any_count();
    let b: Arc<$B> = mk($mkb, n);
    let (b0, d0, c0) = (base(&b), data(&b), cw(&b));
    let p0 = vrt::p_snap();
    let u: ArcUnion<$A, $B> = ArcUnion::from_second(b);
    assert!(u.is_second() && !u.is_first());
    // bit 0 of the value's address is free for EVERY payload (data >= base + 8, both 8-aligned)
    assert!(d0 & 1 == 0 && word(&u) == d0 | 1 && rd(c0) == n);
    assert!(vrt::p_same(p0) && vrt::ga(1) && vrt::gd(0));
    core::mem::forget(u);
} } }; }
// accessors: the variant is reported consistently and the borrow exposes the very same value address
macro_rules! u_acc_first { ($name:ident, $A:ty, $B:ty, $mka:expr) => { gproof! { fn $name() {
    let n = any_count();
    let a: Arc<$A> = mk($mka, n);
    let (d0, c0) = (data(&a), cw(&a));
    let u: ArcUnion<$A, $B> = ArcUnion::from_first(a);
    match u.borrow() {
        ArcUnionBorrow::First(x) => { assert!(vrt::addr(vrt::bptr(&x)) == d0); }
        ArcUnionBorrow::Second(_) => { assert!(false, "first reported as second"); }
    }
    assert!(u.as_first().is_some() && u.as_second().is_none());
    assert!(rd(c0) == n && vrt::ga(1) && vrt::gd(0));
    core::mem::forget(u);
} } }; }
macro_rules! u_acc_second { ($name:ident, $A:ty, $B:ty, $mkb:expr) => { gproof! { fn $name() {
    let n = any_count();
    let b: Arc<$B> = mk($mkb, n);
    let (d0, c0) = (data(&b), cw(&b));
    let u: ArcUnion<$A, $B> = ArcUnion::from_second(b);
    match u.borrow() {
        ArcUnionBorrow::Second(x) => { assert!(vrt::addr(vrt::bptr(&x)) == d0); }
        ArcUnionBorrow::First(_) => { assert!(false, "second reported as first"); }
    }
    assert!(u.as_second().is_some() && u.as_first().is_none());
    assert!(rd(c0) == n && vrt::ga(1) && vrt::gd(0));
    core::mem::forget(u);
} } }; }
macro_rules! u_count_first { ($name:ident, $A:ty, $B:ty, $mka:expr) => { gproof! { fn $name() {
    let n = any_count();
    let a: Arc<$A> = mk($mka, n);
    let c0 = cw(&a);
    let u: ArcUnion<$A, $B> = ArcUnion::from_first(a);
    assert!(ArcUnion::strong_count(&u) == n && rd(c0) == n);
    core::mem::forget(u);
} } }; }
macro_rules! u_count_second { ($name:ident, $A:ty, $B:ty, $mkb:expr) => { gproof! { fn $name() {
    let n = any_count();
    let b: Arc<$B> = mk($mkb, n);
    let c0 = cw(&b);
    let u: ArcUnion<$A, $B> = ArcUnion::from_second(b);
    assert!(ArcUnion::strong_count(&u) == n && rd(c0) == n);
    core::mem::forget(u);
} } }; }
macro_rules! u_clone_first { ($name:ident, $A:ty, $B:ty, $mka:expr) => { gproof! { fn $name() {
    let n = any_count();
    let a: Arc<$A> = mk($mka, n);
    let c0 = cw(&a);
    let u: ArcUnion<$A, $B> = ArcUnion::from_first(a);
    let p0 = vrt::p_snap();
    let u2 = u.clone();
    assert!(u2.is_first() && word(&u2) == word(&u) && rd(c0) == n + 1 && ArcUnion::ptr_eq(&u, &u2));
    assert!(vrt::p_same(p0) && vrt::ga(1) && vrt::gd(0));
    core::mem::forget(u);
    core::mem::forget(u2);
} } }; }
macro_rules! u_clone_second { ($name:ident, $A:ty, $B:ty, $mkb:expr) => { gproof! { fn $name() {
    let n = any_count();
    let b: Arc<$B> = mk($mkb, n);
    let c0 = cw(&b);
    let u: ArcUnion<$A, $B> = ArcUnion::from_second(b);
    let p0 = vrt::p_snap();
    let u2 = u.clone();
    assert!(u2.is_second() && word(&u2) == word(&u) && rd(c0) == n + 1 && ArcUnion::ptr_eq(&u, &u2));
    assert!(vrt::p_same(p0) && vrt::ga(1) && vrt::gd(0));
    core::mem::forget(u);
    core::mem::forget(u2);
} } }; }
macro_rules! u_drop_first { ($name:ident, $A:ty, $B:ty, $mka:expr, $ka:expr, $nda:expr) => { gproof! { fn $name() {
    let n = any_count();
    let a: Arc<$A> = mk($mka, n);
    let (b0, c0) = (base(&a), cw(&a));
    let u: ArcUnion<$A, $B> = ArcUnion::from_first(a);
    drop(u);
    if n == 1 {
        // the destructor of the FIRST type ran, once; the block went back with its own layout
        assert!(vrt::drops() == $nda && ($nda == 0 || vrt::drops_kind($ka) == 1));
        assert!(vrt::gd(1) && !vrt::g_live(b0));
    } else {
        assert!(vrt::drops() == 0 && vrt::gd(0) && vrt::glive_at(b0) && rd(c0) == n - 1);
    }
    kani::cover!(n == 1, "last owner");
    kani::cover!(n > 1, "not last owner");
} } }; }
macro_rules! u_drop_second { ($name:ident, $A:ty, $B:ty, $mkb:expr, $kb:expr, $ndb:expr) => { gproof! { fn $name() {
    let n = any_count();
    let b: Arc<$B> = mk($mkb, n);
    let (b0, c0) = (base(&b), cw(&b));
    let u: ArcUnion<$A, $B> = ArcUnion::from_second(b);
    drop(u);
    if n == 1 {
        assert!(vrt::drops() == $ndb && ($ndb == 0 || vrt::drops_kind($kb) == 1));
        assert!(vrt::gd(1) && !vrt::g_live(b0));
    } else {
        assert!(vrt::drops() == 0 && vrt::gd(0) && vrt::glive_at(b0) && rd(c0) == n - 1);
    }
    kani::cover!(n == 1, "last owner");
    kani::cover!(n > 1, "not last owner");
} } }; }

// ---- pair tr_tr16: ArcUnion<Tr, Tr16>
// @h props=C12,C01,C04,C03,C09 fuc=ArcUnion::from_first,ArcUnion::is_first,ArcUnion::is_second
u_from_first!(c12_union_from_first__tr_tr16, Tr, Tr16, Tr::new());
// @h props=C12,C01,C04,C03,C09 fuc=ArcUnion::from_second,ArcUnion::is_first,ArcUnion::is_second
u_from_second!(c12_union_from_second__tr_tr16, Tr, Tr16, Tr16::new());
// @h props=C12,C11,C01 fuc=ArcUnion::borrow,ArcUnion::as_first,ArcUnion::as_second,ArcBorrow::from_ptr
u_acc_first!(c12_union_acc_first__tr_tr16, Tr, Tr16, Tr::new());
// @h props=C12,C11,C01 fuc=ArcUnion::borrow,ArcUnion::as_first,ArcUnion::as_second,ArcBorrow::from_ptr
u_acc_second!(c12_union_acc_second__tr_tr16, Tr, Tr16, Tr16::new());
// @h props=C12,C04 fuc=ArcUnion::strong_count,ArcUnionBorrow::strong_count,ArcBorrow::strong_count
u_count_first!(c12_union_count_first__tr_tr16, Tr, Tr16, Tr::new());
// @h props=C12,C04 fuc=ArcUnion::strong_count,ArcUnionBorrow::strong_count,ArcBorrow::strong_count
u_count_second!(c12_union_count_second__tr_tr16, Tr, Tr16, Tr16::new());
// @h props=C12,C01,C04,C16 tier=thorough fuc=ArcUnion::clone,ArcBorrow::clone_arc,ArcUnion::ptr_eq
u_clone_first!(c12_union_clone_first__tr_tr16, Tr, Tr16, Tr::new());
// (thorough tier since round 7: the size of this obligation's formula is chaotic across builds and even across invocations - 70 s or past 15 min - which a quick check with a time limit cannot afford; the quick tier keeps the count/accessor/constructor/release obligations of the union)
// @h tier=thorough props=C12,C01,C04,C16,C03,C08,C09 fuc=ArcUnion::clone,ArcBorrow::clone_arc,ArcUnion::ptr_eq
u_clone_second!(c12_union_clone_second__tr_tr16, Tr, Tr16, Tr16::new());
// @h props=C12,C01,C04,C05 fuc=ArcUnion::drop,Arc::from_raw,Arc::drop
u_drop_first!(c12_union_drop_first__tr_tr16, Tr, Tr16, Tr::new(), 0, 1);
// @h props=C12,C01,C04,C05 fuc=ArcUnion::drop,Arc::from_raw,Arc::drop
u_drop_second!(c12_union_drop_second__tr_tr16, Tr, Tr16, Tr16::new(), 2, 1);

// ---- pair tr8_tr8: ArcUnion<Tr8, Tr8>
// @h props=C12 tier=thorough fuc=ArcUnion::from_first,ArcUnion::is_first,ArcUnion::is_second
u_from_first!(c12_union_from_first__tr8_tr8, Tr8, Tr8, Tr8::new());
// @h props=C12 fuc=ArcUnion::from_second,ArcUnion::is_first,ArcUnion::is_second
u_from_second!(c12_union_from_second__tr8_tr8, Tr8, Tr8, Tr8::new());
// @h props=C12,C11,C01 tier=thorough fuc=ArcUnion::borrow,ArcUnion::as_first,ArcUnion::as_second,ArcBorrow::from_ptr
u_acc_first!(c12_union_acc_first__tr8_tr8, Tr8, Tr8, Tr8::new());
// @h props=C12,C11,C01 fuc=ArcUnion::borrow,ArcUnion::as_first,ArcUnion::as_second,ArcBorrow::from_ptr
u_acc_second!(c12_union_acc_second__tr8_tr8, Tr8, Tr8, Tr8::new());
// @h props=C12 tier=thorough fuc=ArcUnion::strong_count,ArcUnionBorrow::strong_count,ArcBorrow::strong_count
u_count_first!(c12_union_count_first__tr8_tr8, Tr8, Tr8, Tr8::new());
// @h props=C12 tier=thorough fuc=ArcUnion::strong_count,ArcUnionBorrow::strong_count,ArcBorrow::strong_count
u_count_second!(c12_union_count_second__tr8_tr8, Tr8, Tr8, Tr8::new());
// @h props=C12 tier=thorough fuc=ArcUnion::clone,ArcBorrow::clone_arc,ArcUnion::ptr_eq
u_clone_first!(c12_union_clone_first__tr8_tr8, Tr8, Tr8, Tr8::new());
// @h props=C12 tier=thorough fuc=ArcUnion::clone,ArcBorrow::clone_arc,ArcUnion::ptr_eq
u_clone_second!(c12_union_clone_second__tr8_tr8, Tr8, Tr8, Tr8::new());
// @h props=C12,C05 tier=thorough fuc=ArcUnion::drop,Arc::from_raw,Arc::drop
u_drop_first!(c12_union_drop_first__tr8_tr8, Tr8, Tr8, Tr8::new(), 1, 1);
// @h tier=manual props=C12,C05 fuc=ArcUnion::drop,Arc::from_raw,Arc::drop note="runaway in CBMC (37 GB, >15 min) although its siblings take a minute; kept for manual runs only"
u_drop_second!(c12_union_drop_second__tr8_tr8, Tr8, Tr8, Tr8::new(), 1, 1);

// ---- pair z_s1: ArcUnion<Z, S1>
// @h props=C12 tier=thorough fuc=ArcUnion::from_first,ArcUnion::is_first,ArcUnion::is_second
u_from_first!(c12_union_from_first__z_s1, Z, S1, Z);
// @h props=C12 fuc=ArcUnion::from_second,ArcUnion::is_first,ArcUnion::is_second
u_from_second!(c12_union_from_second__z_s1, Z, S1, S1::any());
// @h props=C12,C11,C01 tier=thorough fuc=ArcUnion::borrow,ArcUnion::as_first,ArcUnion::as_second,ArcBorrow::from_ptr
u_acc_first!(c12_union_acc_first__z_s1, Z, S1, Z);
// @h props=C12,C11,C01 fuc=ArcUnion::borrow,ArcUnion::as_first,ArcUnion::as_second,ArcBorrow::from_ptr
u_acc_second!(c12_union_acc_second__z_s1, Z, S1, S1::any());
// @h props=C12 tier=thorough fuc=ArcUnion::strong_count,ArcUnionBorrow::strong_count,ArcBorrow::strong_count
u_count_first!(c12_union_count_first__z_s1, Z, S1, Z);
// @h props=C12 fuc=ArcUnion::strong_count,ArcUnionBorrow::strong_count,ArcBorrow::strong_count
u_count_second!(c12_union_count_second__z_s1, Z, S1, S1::any());
// @h props=C12 tier=thorough fuc=ArcUnion::clone,ArcBorrow::clone_arc,ArcUnion::ptr_eq
u_clone_first!(c12_union_clone_first__z_s1, Z, S1, Z);
// @h props=C12 tier=thorough fuc=ArcUnion::clone,ArcBorrow::clone_arc,ArcUnion::ptr_eq
u_clone_second!(c12_union_clone_second__z_s1, Z, S1, S1::any());
// @h props=C12,C05 tier=thorough fuc=ArcUnion::drop,Arc::from_raw,Arc::drop
u_drop_first!(c12_union_drop_first__z_s1, Z, S1, Z, 0, 0);
// @h props=C12,C05 tier=thorough fuc=ArcUnion::drop,Arc::from_raw,Arc::drop
u_drop_second!(c12_union_drop_second__z_s1, Z, S1, S1::any(), 0, 0);

// ---- pair tr64_z: ArcUnion<vrt::Tr64, Z>
// @h props=C12 tier=thorough fuc=ArcUnion::from_first,ArcUnion::is_first,ArcUnion::is_second
u_from_first!(c12_union_from_first__tr64_z, vrt::Tr64, Z, vrt::Tr64::new());
// @h props=C12 tier=thorough fuc=ArcUnion::from_second,ArcUnion::is_first,ArcUnion::is_second
u_from_second!(c12_union_from_second__tr64_z, vrt::Tr64, Z, Z);
// @h props=C12,C11,C01 tier=thorough fuc=ArcUnion::borrow,ArcUnion::as_first,ArcUnion::as_second,ArcBorrow::from_ptr
u_acc_first!(c12_union_acc_first__tr64_z, vrt::Tr64, Z, vrt::Tr64::new());
// @h props=C12,C11,C01 tier=thorough fuc=ArcUnion::borrow,ArcUnion::as_first,ArcUnion::as_second,ArcBorrow::from_ptr
u_acc_second!(c12_union_acc_second__tr64_z, vrt::Tr64, Z, Z);
// @h props=C12 tier=thorough fuc=ArcUnion::strong_count,ArcUnionBorrow::strong_count,ArcBorrow::strong_count
u_count_first!(c12_union_count_first__tr64_z, vrt::Tr64, Z, vrt::Tr64::new());
// @h props=C12 tier=thorough fuc=ArcUnion::strong_count,ArcUnionBorrow::strong_count,ArcBorrow::strong_count
u_count_second!(c12_union_count_second__tr64_z, vrt::Tr64, Z, Z);
// @h props=C12 tier=thorough fuc=ArcUnion::clone,ArcBorrow::clone_arc,ArcUnion::ptr_eq
u_clone_first!(c12_union_clone_first__tr64_z, vrt::Tr64, Z, vrt::Tr64::new());
// @h tier=manual props=C12 fuc=ArcUnion::clone,ArcBorrow::clone_arc,ArcUnion::ptr_eq note="runs out of memory in CBMC (37 GB) in some builds although its siblings take a minute; manual runs only"
u_clone_second!(c12_union_clone_second__tr64_z, vrt::Tr64, Z, Z);
// @h props=C12,C05 tier=thorough fuc=ArcUnion::drop,Arc::from_raw,Arc::drop
u_drop_first!(c12_union_drop_first__tr64_z, vrt::Tr64, Z, vrt::Tr64::new(), 3, 1);
// @h props=C12,C05 tier=thorough fuc=ArcUnion::drop,Arc::from_raw,Arc::drop
u_drop_second!(c12_union_drop_second__tr64_z, vrt::Tr64, Z, Z, 0, 0);

// @h props=C12,C11 fuc=ArcUnion note="one word, null niche"
gproof! { fn c12_union_one_word_with_niche() {
    assert!(core::mem::size_of::<ArcUnion<Tr, Tr16>>() == core::mem::size_of::<usize>());
    assert!(core::mem::size_of::<Option<ArcUnion<Tr, Tr16>>>() == core::mem::size_of::<usize>());
    assert!(core::mem::size_of::<ArcUnion<Z, S1>>() == core::mem::size_of::<usize>());
    assert!(core::mem::size_of::<Option<ArcUnion<Z, S1>>>() == core::mem::size_of::<usize>());
    let a = Arc::new(S1::any());
    core::mem::forget(a);
} }

// @h props=C12,C14 fuc=ArcUnion::eq note="unions holding different variants never compare equal"
gproof! { fn c12_union_eq_cross_variant_false() {
    let x = S1::any();
    let u1: ArcUnion<S1, S1> = ArcUnion::from_first(Arc::new(x));
    let u2: ArcUnion<S1, S1> = ArcUnion::from_second(Arc::new(x));
    assert!(!(u1 == u2) && !(u2 == u1));
    assert!(u1 != u2);
    core::mem::forget(u1);
    core::mem::forget(u2);
} }

// @h props=C16 tier=thorough kind=panic site="abort" fuc=ArcUnion::clone
gpanic! { fn c16_union_clone_first_overflow_aborts() {
    let n = vrt::overflow_count();
    let u: ArcUnion<S1, S9a8> = ArcUnion::from_first(mk(S1::any(), n));
    let u2 = u.clone();
    core::mem::forget(u);
    core::mem::forget(u2);
} }

// @h props=C16 kind=panic site="abort" fuc=ArcUnion::clone
gpanic! { fn c16_union_clone_second_overflow_aborts() {
    let n = vrt::overflow_count();
    let u: ArcUnion<S1, S9a8> = ArcUnion::from_second(mk(S9a8::any(), n));
    let u2 = u.clone();
    core::mem::forget(u);
    core::mem::forget(u2);
} }

// @h props=C14 fuc=ArcUnion::eq note="statement of C14: same-variant unions compare as the values they hold"
gproof! { fn c14_union_eq_same_variant_by_value() {
    let (x, y): (u8, u8) = (kani::any(), kani::any());
    let u1: ArcUnion<u8, u16> = ArcUnion::from_first(Arc::new(x));
    let u2: ArcUnion<u8, u16> = ArcUnion::from_first(Arc::new(y));
    assert!((u1 == u2) == (x == y), "F2 ArcUnion == (same variant) is not value equality");
    assert!((u1 != u2) == (x != y), "ArcUnion != (same variant) is not value inequality");
    core::mem::forget(u1);
    core::mem::forget(u2);
} }

// @h props=C14 fuc=ArcUnion::fmt note="statement of C14: formatting a union formats the value it holds"
gproof! { fn c14_union_debug_by_value() {
    use crate::vrt::{Ip, OP_DEBUG};
    let a = Arc::new(Ip(kani::any()));
    let d0 = data(&a);
    let u: ArcUnion<Ip, u16> = ArcUnion::from_first(a);
    let ok = vrt::debug_ok(&u);
    assert!(vrt::ip_calls(OP_DEBUG) == 1 && unsafe { vrt::IP_SELF } == d0, "F2 ArcUnion Debug does not format the value");
    core::mem::forget(u);
} }

// @h props=C12,C14 fuc=ArcUnion::fmt note="whatever the Debug form of a union is (transparent, or labelled with the variant), it never names the OTHER variant: the payload here prints nothing, so the first byte written is the label's, if any"
gproof! { fn c12_union_debug_never_names_other_variant() {
    use crate::vrt::Ip;
    let u1: ArcUnion<Ip, Ip> = ArcUnion::from_first(Arc::new(Ip(kani::any())));
    let u2: ArcUnion<Ip, Ip> = ArcUnion::from_second(Arc::new(Ip(kani::any())));
    let (f1, f2) = (vrt::debug_first_byte(&u1), vrt::debug_first_byte(&u2));
    assert!(f1 != b'S' && f2 != b'F');
    assert!(vrt::ip_calls(crate::vrt::OP_DEBUG) == 2);
    core::mem::forget(u1);
    core::mem::forget(u2);
} }

macro_rules! u_eq_no_transient { ($name:ident, $ctor:ident) => { gproof! { fn $name() {
    use crate::vrt::Ip;
    let n = any_count();
    let a = mk(Ip(kani::any()), n);
    let b = Arc::new(Ip(kani::any()));
    let ca = cw(&a);
    vrt::ip_setup(data(&a), data(&b));
    let u1: ArcUnion<Ip, Ip> = ArcUnion::$ctor(a);
    let u2: ArcUnion<Ip, Ip> = ArcUnion::$ctor(b);
    vrt::ip_watch(ca);
    let r = u1 == u2;
    assert!(vrt::ip_consulted() && vrt::ip_seen_only(n) && rd(ca) == n);
    core::mem::forget(u1);
    core::mem::forget(u2);
} } }; }
// @h props=C04,C14,C12 fuc=ArcUnion::eq note="C04 'not even while the borrow is in use': the count is watched WHILE the payload's eq runs - comparing two unions creates no transient owner (first variant)"
u_eq_no_transient!(c04_union_eq_holds_no_transient_owner__first, from_first);
// @h props=C04,C14,C12 fuc=ArcUnion::eq note="same, second variant"
u_eq_no_transient!(c04_union_eq_holds_no_transient_owner__second, from_second);

// @h props=C12,C14 fuc=ArcUnion::eq,ArcUnion::ptr_eq note="the SAME allocation held as first and as second variant (equal payload types): still different variants, never equal"
gproof! { fn c12_union_eq_cross_variant_same_allocation() {
    let a = Arc::new(S1::any());
    let a2 = a.clone();
    let u1: ArcUnion<S1, S1> = ArcUnion::from_first(a);
    let u2: ArcUnion<S1, S1> = ArcUnion::from_second(a2);
    assert!(!ArcUnion::ptr_eq(&u1, &u2) && !ArcUnion::ptr_eq(&u2, &u1));
    assert!(!(u1 == u2) && !(u2 == u1));
    core::mem::forget(u1);
    core::mem::forget(u2);
} }

// ---- check mode (proof_for_contract): the tag algebra with frame enforcement ----
// @h props=C12 mode=check fuc=ArcUnion::is_first
#[kani::proof_for_contract(ArcUnion::<S1, S9a8>::is_first)]
fn c12_chk_union_is_first() {
    vrt::ghost_reset();
    let u: ArcUnion<S1, S9a8> = if kani::any() { ArcUnion::from_first(Arc::new(S1::any())) } else { ArcUnion::from_second(Arc::new(S9a8::any())) };
    let _ = u.is_first();
    kani::cover!(true, "END");
    core::mem::forget(u);
}
// @h props=C12 mode=check fuc=ArcUnion::borrow
#[kani::proof_for_contract(ArcUnion::<S1, S9a8>::borrow)]
fn c12_chk_union_borrow() {
    vrt::ghost_reset();
    let u: ArcUnion<S1, S9a8> = if kani::any() { ArcUnion::from_first(Arc::new(S1::any())) } else { ArcUnion::from_second(Arc::new(S9a8::any())) };
    let _ = u.borrow();
    kani::cover!(true, "END");
    core::mem::forget(u);
}
// @h props=C12,C01,C04 mode=check fuc=ArcUnion::from_second
#[kani::proof_for_contract(ArcUnion::<S1, S9a8>::from_second)]
fn c12_chk_union_from_second() {
    vrt::ghost_reset();
    let a = mk(S9a8::any(), any_count());
    let u: ArcUnion<S1, S9a8> = ArcUnion::from_second(a);
    kani::cover!(true, "END");
    core::mem::forget(u);
}

// @h props=C12,C01,C04 tier=thorough fuc=ArcUnion::clone_from,ArcUnion::clone,ArcUnion::drop note="provided Clone::clone_from; the SAME allocation held under the other variant: the destination takes the source's variant (concrete count 2, byte payload: union obligations are memory-hungry in CBMC)"
gproof! { fn c12_union_clone_from__same_block_other_variant() {
    let x = mk(S1::any(), 2);
    let c0 = cw(&x);
    let y = unsafe { core::ptr::read(&x) };
    let mut u1: ArcUnion<S1, S1> = ArcUnion::from_first(x);
    let u2: ArcUnion<S1, S1> = ArcUnion::from_second(y);
    u1.clone_from(&u2);
    assert!(u1.is_second() && word(&u1) == word(&u2) && ArcUnion::ptr_eq(&u1, &u2) && rd(c0) == 2 && vrt::gd(0));
    core::mem::forget(u1);
    core::mem::forget(u2);
} }
// @h props=C12,C01,C04 tier=thorough fuc=ArcUnion::clone_from,ArcUnion::clone,ArcUnion::drop note="provided Clone::clone_from onto another allocation of the other variant (sole owners)"
gproof! { fn c12_union_clone_from__other_block() {
    let a = Arc::new(Z);
    let b = Arc::new(S1::any());
    let (ba, cb) = (base(&a), cw(&b));
    let mut u1: ArcUnion<Z, S1> = ArcUnion::from_first(a);
    let u2: ArcUnion<Z, S1> = ArcUnion::from_second(b);
    u1.clone_from(&u2);
    assert!(u1.is_second() && word(&u1) == word(&u2) && rd(cb) == 2 && !vrt::g_live(ba) && vrt::gd(1));
    core::mem::forget(u1);
    core::mem::forget(u2);
} }
