// child module of src/unique_arc.rs: sees UniqueArc's private field.
#![allow(dead_code, unused_imports, unused_unsafe, static_mut_refs, deprecated, unused_variables, unused_mut)]
use crate::arc::{Arc, ArcInner};
use crate::unique_arc::UniqueArc;
use crate::vrt;

pub(crate) fn inner_arc<T: ?Sized>(u: &UniqueArc<T>) -> &Arc<T> {
    &u.0
}
use crate::header::HeaderSlice;
use crate::vrt::{any_count, base, cnt, cw, data, mk, rd, set_cnt, Tr, Tr16, Tr64, Tr8, Zd, S1, S16a16, S64a64, S9a8, Z};
use core::alloc::Layout;
use core::mem::MaybeUninit;

// ------------------------------------------------------------------------------------------
// C03: UniqueArc invariant (count == 1) — every producer establishes it (contracts), DerefMut needs it
// ------------------------------------------------------------------------------------------

// @h props=C03,C01,C06 fuc=UniqueArc::new,UniqueArc::deref_mut,UniqueArc::deref,UniqueArc::shareable
gproof! { fn c03_unique_new_derefmut_shareable() {
    let t = Tr8::new();
    let id = t.id;
    let mut u = UniqueArc::new(t);
    let (b0, d0) = (base(&u.0), data(&u.0));
    assert!(cnt(&u.0) == 1 && u.id == id);
    let w: u8 = kani::any();
    { let r: &mut Tr8 = &mut *u; assert!(vrt::addr(r as *const Tr8) == d0); r.v = w; }
    assert!(u.v == w && vrt::addr(&*u as *const Tr8) == d0);
    let a = u.shareable();
    assert!(base(&a) == b0 && cnt(&a) == 1 && a.v == w && a.id == id);
    assert!(vrt::drops() == 0 && vrt::clones() == 0 && vrt::ga(1) && vrt::gd(0));
    drop(a);
    assert!(vrt::drops() == 1 && vrt::gd(1));
} }

// @h props=C01,C05 fuc=UniqueArc::drop
gproof! { fn c01_unique_drop__tr16() {
    let u = UniqueArc::new(Tr16::new());
    let id = u.id;
    drop(u);
    assert!(vrt::drops() == 1 && vrt::dropped(id) && vrt::ga(1) && vrt::gd(1) && vrt::glive(0));
} }

// ------------------------------------------------------------------------------------------
// C15 / C05: uninitialised construction
// ------------------------------------------------------------------------------------------
macro_rules! h_new_uninit_layout {
    ($name:ident, $T:ty) => {
        gproof! { fn $name() {
            let u: UniqueArc<MaybeUninit<$T>> = UniqueArc::new_uninit();
            let (b0, d0) = (base(&u.0), data(&u.0));
            let (size, align) = vrt::g_req(b0);
            assert!(cnt(&u.0) == 1 && vrt::ga(1));
            assert!(!vrt::g_on() || (align == core::mem::align_of::<ArcInner<$T>>() && size == core::mem::size_of::<ArcInner<$T>>()));
            assert!(d0 % core::mem::align_of::<$T>() == 0 && d0 >= b0 + 8);
            assert!(!vrt::g_on() || d0 + core::mem::size_of::<$T>() <= b0 + size);
            drop(u);
            assert!(vrt::gd(1) && vrt::glive(0) && vrt::drops() == 0);
        } }
    };
}
// @h props=C05,C15 fuc=UniqueArc::new_uninit,UniqueArc::drop
h_new_uninit_layout!(c05_unique_new_uninit_layout__a64, S64a64);
// @h props=C05,C15 fuc=UniqueArc::new_uninit,UniqueArc::drop
h_new_uninit_layout!(c05_unique_new_uninit_layout__zst, Z);
// @h props=C05,C15 fuc=UniqueArc::new_uninit,UniqueArc::drop
h_new_uninit_layout!(c05_unique_new_uninit_layout__s1, S1);
// @h props=C05,C15 tier=thorough fuc=UniqueArc::new_uninit,UniqueArc::drop
h_new_uninit_layout!(c05_unique_new_uninit_layout__s9a8, S9a8);
// @h props=C05,C15 tier=thorough fuc=UniqueArc::new_uninit,UniqueArc::drop
h_new_uninit_layout!(c05_unique_new_uninit_layout__tr16, Tr16);

// @h props=C15 fuc=UniqueArc::new_uninit,UniqueArc::write,UniqueArc::assume_init,UniqueArc::as_mut_ptr
gproof! { fn c15_unique_uninit_sized_lifecycle() {
    let mut u: UniqueArc<MaybeUninit<Tr8>> = UniqueArc::new_uninit();
    let (b0, d0) = (base(&u.0), data(&u.0));
    assert!(vrt::addr(u.as_mut_ptr() as *const MaybeUninit<Tr8>) == d0);
    let written: bool = kani::any();
    let mut id = 0;
    if written {
        let t = Tr8::new();
        id = t.id;
        let r = u.write(t);
        assert!(vrt::addr(r as *const Tr8) == d0 && r.id == id);
    }
    let finish: bool = kani::any();
    if written && finish {
        let v = unsafe { UniqueArc::assume_init(u) };
        // assume_init changes the type, not the allocation, contents or count
        assert!(base(&v.0) == b0 && cnt(&v.0) == 1 && v.id == id && vrt::drops() == 0 && vrt::ga(1) && vrt::gd(0));
        drop(v);
        assert!(vrt::drops() == 1 && vrt::dropped(id) && vrt::gd(1));
    } else {
        // dropped before assume_init: no element destructor runs, written or not
        drop(u);
        assert!(vrt::drops() == 0 && vrt::gd(1) && vrt::glive(0));
    }
    kani::cover!(written && finish, "initialised path");
    kani::cover!(written && !finish, "written then dropped early");
    kani::cover!(!written, "never written");
} }

// @h props=C15 fuc=UniqueArc::write note="write does not run a destructor on the previous (uninitialised) content"
gproof! { fn c15_unique_write_does_not_drop_old_slot() {
    let mut u: UniqueArc<MaybeUninit<Tr8>> = UniqueArc::new_uninit();
    let r = u.write(Tr8::new());
    assert!(vrt::drops() == 0);
    core::mem::forget(u);
} }

// @h props=C15 fuc=UniqueArc::write,UniqueArc::assume_init,Arc::write note="ZERO-SIZED value with a destructor: writing MOVES it into the slot (not destroyed by write), after assume_init it is destroyed exactly once, by the allocation"
gproof! { fn c15_unique_write_zero_sized_with_drop_moves_value() {
    let mut u: UniqueArc<MaybeUninit<Zd>> = UniqueArc::new_uninit();
    u.write(Zd);
    assert!(unsafe { vrt::ZDROPS } == 0);
    let finish: bool = kani::any();
    if finish {
        let v = unsafe { UniqueArc::assume_init(u) };
        assert!(unsafe { vrt::ZDROPS } == 0);
        drop(v);
        assert!(unsafe { vrt::ZDROPS } == 1 && vrt::glive(0));
    } else {
        drop(u);
        assert!(unsafe { vrt::ZDROPS } == 0 && vrt::glive(0));
    }
} }

// @h props=C15,C05 bounded=len<=3 fuc=UniqueArc::from_header_and_uninit_slice,UniqueArc::assume_init_slice_with_header,UniqueArc::drop
gproof! { #[kani::unwind(5)] fn c15_unique_uninit_slice_with_header_prefix() {
    let len: usize = kani::any();
    kani::assume(len <= 3);
    let hd = Tr8::new();
    let hid = hd.id;
    let mut u: UniqueArc<HeaderSlice<Tr8, [MaybeUninit<Tr>]>> = UniqueArc::from_header_and_uninit_slice(hd, len);
    let b0 = base(&u.0);
    assert!(u.slice.len() == len && u.header.id == hid && cnt(&u.0) == 1 && vrt::drops() == 0);
    let k: usize = kani::any();
    kani::assume(k <= len);
    let mut i = 0;
    while i < k { u.slice[i].write(Tr::new()); i += 1; }
    let finish: bool = kani::any();
    if k == len && finish {
        let a = unsafe { u.assume_init_slice_with_header() };
        assert!(base(&a.0) == b0 && cnt(&a.0) == 1 && a.slice.len() == len && a.header.id == hid);
        assert!(vrt::drops() == 0 && vrt::ga(1) && vrt::gd(0));
        drop(a);
        assert!(vrt::drops() == len + 1 && vrt::gd(1));
    } else {
        drop(u);
        // header destroyed exactly once, no element destructor at all, no unissued id destroyed
        assert!(vrt::drops() == 1 && vrt::dropped(hid) && vrt::drops_kind(0) == 0 && vrt::gd(1) && vrt::glive(0));
    }
    kani::cover!(k == len && finish && len == 3, "fully initialised, len 3");
    kani::cover!(k < len, "partially written, dropped");
} }

// @h props=C15 tier=thorough bounded=len<=3,every-subset fuc=UniqueArc::from_header_and_uninit_slice,UniqueArc::drop
gproof! { #[kani::unwind(5)] fn c15_unique_uninit_slice_with_header_subset() {
    let len: usize = kani::any();
    kani::assume(len <= 3);
    let hd = Tr8::new();
    let hid = hd.id;
    let mut u: UniqueArc<HeaderSlice<Tr8, [MaybeUninit<Tr>]>> = UniqueArc::from_header_and_uninit_slice(hd, len);
    let mask: u8 = kani::any();
    let mut i = 0;
    while i < len { if mask & (1 << i) != 0 { u.slice[i].write(Tr::new()); } i += 1; }
    drop(u);
    assert!(vrt::drops() == 1 && vrt::dropped(hid) && vrt::drops_kind(0) == 0 && vrt::gd(1) && vrt::glive(0));
} }

// @h props=C15,C05 bounded=len<=3 fuc=UniqueArc::new_uninit_slice,UniqueArc::assume_init_slice,Arc::assume_init
gproof! { #[kani::unwind(5)] fn c15_unique_new_uninit_slice_lifecycle() {
    let len: usize = kani::any();
    kani::assume(len <= 3);
    let mut u: UniqueArc<[MaybeUninit<Tr>]> = UniqueArc::new_uninit_slice(len);
    let b0 = base(&u.0);
    assert!(u.len() == len && cnt(&u.0) == 1);
    let k: usize = kani::any();
    kani::assume(k <= len);
    let mut i = 0;
    while i < k { u[i].write(Tr::new()); i += 1; }
    let finish: bool = kani::any();
    if k == len && finish {
        let a = unsafe { UniqueArc::assume_init_slice(u) };
        assert!(base(&a.0) == b0 && cnt(&a.0) == 1 && a.len() == len && vrt::drops() == 0 && vrt::gd(0));
        drop(a);
        assert!(vrt::drops() == len && vrt::gd(1));
    } else {
        drop(u);
        assert!(vrt::drops() == 0 && vrt::gd(1) && vrt::glive(0));
    }
} }

// @h props=C15,C01 bounded=len<=3 fuc=Arc::new_uninit_slice,Arc::assume_init,Arc::as_mut_slice
gproof! { #[kani::unwind(5)] fn c15_arc_new_uninit_slice_assume_init() {
    let len: usize = kani::any();
    kani::assume(len <= 3);
    let mut a: Arc<[MaybeUninit<Tr>]> = Arc::new_uninit_slice(len);
    let b0 = base(&a);
    let mut i = 0;
    while i < len { a.as_mut_slice()[i].write(Tr::new()); i += 1; }
    let n = any_count();
    set_cnt(&a, n);
    let b: Arc<[Tr]> = unsafe { a.assume_init() };
    assert!(base(&b) == b0 && cnt(&b) == n && b.len() == len && vrt::drops() == 0 && vrt::ga(1) && vrt::gd(0));
    core::mem::forget(b);
} }

// @h props=C15,C01 fuc=Arc::new_uninit,Arc::assume_init,Arc::as_mut_ptr
gproof! { fn c15_arc_new_uninit_assume_init_sized() {
    let mut a: Arc<MaybeUninit<Tr8>> = Arc::new_uninit();
    let (b0, d0) = (base(&a), data(&a));
    assert!(vrt::addr(a.as_mut_ptr() as *const MaybeUninit<Tr8>) == d0);
    let t = Tr8::new();
    let id = t.id;
    unsafe { (a.as_mut_ptr() as *mut Tr8).write(t); }
    let n = any_count();
    set_cnt(&a, n);
    let b: Arc<Tr8> = unsafe { a.assume_init() };
    assert!(base(&b) == b0 && cnt(&b) == n && b.id == id && vrt::drops() == 0 && vrt::ga(1) && vrt::gd(0));
    core::mem::forget(b);
} }

// @h props=C15 fuc=Arc::new_uninit,Arc::drop note="drop before assume_init runs no destructor"
gproof! { fn c15_arc_new_uninit_dropped_early() {
    let a: Arc<MaybeUninit<Tr8>> = Arc::new_uninit();
    drop(a);
    assert!(vrt::drops() == 0 && vrt::ga(1) && vrt::gd(1) && vrt::glive(0));
} }

// @h props=C15 tier=thorough bounded=len<=5 fuc=UniqueArc::from_header_and_uninit_slice,UniqueArc::assume_init_slice_with_header,UniqueArc::drop
gproof! { #[kani::unwind(7)] fn c15_unique_uninit_slice_with_header_prefix_len5() {
    let len: usize = kani::any();
    kani::assume(len <= 5);
    let hd = Tr8::new();
    let hid = hd.id;
    let mut u: UniqueArc<HeaderSlice<Tr8, [MaybeUninit<Tr>]>> = UniqueArc::from_header_and_uninit_slice(hd, len);
    let k: usize = kani::any();
    kani::assume(k <= len);
    let mut i = 0;
    while i < k { u.slice[i].write(Tr::new()); i += 1; }
    if k == len && kani::any() {
        let a = unsafe { u.assume_init_slice_with_header() };
        drop(a);
        assert!(vrt::drops() == len + 1 && vrt::gd(1));
    } else {
        drop(u);
        assert!(vrt::drops() == 1 && vrt::dropped(hid) && vrt::drops_kind(0) == 0 && vrt::gd(1) && vrt::glive(0));
    }
} }

// @h props=C15,C06 bounded=len<=2 fuc=UniqueArc::from_header_and_uninit_slice,UniqueArc::drop note="zero-sized header WITH a destructor: moved into the allocation, destroyed exactly once (with the handle, not at construction)"
gproof! { #[kani::unwind(4)] fn c15_unique_uninit_slice_zst_header_with_drop() {
    let len: usize = kani::any();
    kani::assume(len <= 2);
    let u: UniqueArc<HeaderSlice<Zd, [MaybeUninit<Tr>]>> = UniqueArc::from_header_and_uninit_slice(Zd, len);
    assert!(unsafe { vrt::ZDROPS } == 0 && u.slice.len() == len);
    drop(u);
    assert!(unsafe { vrt::ZDROPS } == 1 && vrt::drops() == 0 && vrt::gd(1) && vrt::glive(0));
} }

// @h props=C15,C01 bounded=len<=3 fuc=Arc::new_uninit_slice,Arc::assume_init,UniqueArc::assume_init_slice note="zero-sized element type: assume_init keeps the length, every element is destroyed exactly once afterwards, none before"
gproof! { #[kani::unwind(5)] fn c15_uninit_slice_zero_sized_elements() {
    let len: usize = kani::any();
    kani::assume(len <= 3);
    let a: Arc<[MaybeUninit<Zd>]> = Arc::new_uninit_slice(len);
    assert!(a.len() == len);
    let early: bool = kani::any();
    if early {
        drop(a);
        assert!(unsafe { vrt::ZDROPS } == 0 && vrt::glive(0));
    } else {
        let b: Arc<[Zd]> = unsafe { a.assume_init() };
        assert!(b.len() == len && unsafe { vrt::ZDROPS } == 0);
        drop(b);
        assert!(unsafe { vrt::ZDROPS } == len && vrt::glive(0));
    }
} }
