// child module of src/unique_arc.rs: sees UniqueArc's private field.
#![allow(dead_code, unused_imports, unused_unsafe, static_mut_refs)]
use crate::arc::Arc;
use crate::unique_arc::UniqueArc;
use crate::vrt;

pub(crate) fn inner_arc<T: ?Sized>(u: &UniqueArc<T>) -> &Arc<T> {
    &u.0
}
